"""C20 implementation runner (one of several parallel worker processes).

    /venv/bin/python c20_worker.py <job.json> <out.json>        (PYTHONPATH = $VERIF_REPO/src)

Drives the REAL entry points of chuk-mcp on generated configuration files:
  loader   chuk_mcp.config.load_config                      (+ the library's own stdio_client/send_initialize on what it returned)
  cli      chuk_mcp.__main__.main()  with argv  --config F --server NAME
  runner   chuk_mcp.mcp_client.host.server_manager.run_command(command_func, F, names)
and reports what the witness children (c20_witness.py) recorded.  No judgement is made here."""
import asyncio  # noqa: F401
import contextlib
import decimal
import json
import locale
import logging
import os
import signal
import sys
import time

STEP_TIMEOUT = 10          # a handshake with the witness takes well under a second; a step that hangs is an observation, not a reason to wait


HANGS = {"n": 0}


class StepTimeout(BaseException):
    pass


def _alarm(_sig, _frm):
    raise StepTimeout()


def err_class(e):
    if isinstance(e, FileNotFoundError):
        return "FNF"
    if isinstance(e, json.JSONDecodeError):
        return "JSON"
    if isinstance(e, ValueError):
        return "VAL"
    return "OTHER"


def dec_of_number(t):
    """exact normalised decimal (m, e) of a python number; anything else is reported by type"""
    if isinstance(t, bool) or not isinstance(t, (int, float)):
        return {"bad": type(t).__name__}
    if isinstance(t, float) and (t != t or t in (float("inf"), float("-inf"))):
        return {"bad": repr(t)}
    d = decimal.Decimal(repr(t)) if isinstance(t, float) else decimal.Decimal(t)
    sign, digits, exp = d.as_tuple()
    m = int("".join(str(x) for x in digits) or "0")
    if m == 0:
        return {"dec": [0, 0], "type": type(t).__name__}
    while m % 10 == 0:
        m //= 10
        exp += 1
    return {"dec": [-m if sign else m, exp], "type": type(t).__name__}


def children():
    try:
        with open(f"/proc/{os.getpid()}/task/{os.getpid()}/children") as f:
            return [int(x) for x in f.read().split()]
    except OSError:
        return []


def settle():
    """All children the library started must be gone when an entry point returns; stragglers are killed
    (and counted) so that one case cannot disturb the next."""
    t_end = time.time() + 1.0
    while children() and time.time() < t_end:
        time.sleep(0.01)
    left = children()
    for pid in left:
        try:
            os.kill(pid, signal.SIGKILL)
        except OSError:
            pass
    for pid in left:
        try:
            os.waitpid(pid, 0)
        except OSError:
            pass
    return len(left)


def collect(dirs):
    recs = []
    for d in dirs:
        try:
            names = os.listdir(d)
        except OSError:
            continue
        for f in names:
            p = os.path.join(d, f)
            if f.startswith("rec.") and f.endswith(".json"):
                try:
                    recs.append(json.load(open(p)))
                finally:
                    os.remove(p)
            elif f.startswith("rec.") and f.endswith(".tmp"):
                os.remove(p)
    recs.sort(key=lambda r: r["t0"])
    return [{"argv": r["argv"], "env": r["env"], "events": r["events"]} for r in recs]


def main():
    job = json.load(open(sys.argv[1], encoding="utf-8"))
    out_path = sys.argv[2]
    log = open(out_path + ".log", "w", encoding="utf-8", errors="backslashreplace")
    os.dup2(log.fileno(), 2)
    devnull = os.open(os.devnull, os.O_WRONLY)
    os.dup2(devnull, 1)
    sys.stdout = open(os.devnull, "w", encoding="utf-8", errors="replace")
    logging.disable(logging.CRITICAL)
    signal.signal(signal.SIGALRM, _alarm)

    import anyio
    from chuk_mcp.protocol import mcp_pydantic_base
    backend = "pydantic" if getattr(mcp_pydantic_base, "PYDANTIC_AVAILABLE", False) else "fallback"
    from chuk_mcp.config import load_config
    from chuk_mcp.transports.stdio import stdio_client
    from chuk_mcp.protocol.messages import send_initialize
    from chuk_mcp.mcp_client.host.environment import get_default_environment
    import chuk_mcp.__main__ as cli_main
    import chuk_mcp.mcp_client.host.server_manager as server_manager

    cleared = []

    def fake_system(cmd):
        cleared.append(cmd)
        return 0

    server_manager.os.system = fake_system        # os.system("clear")

    async def launch_loaded(params):
        async with stdio_client(params) as (r, w):
            res = await send_initialize(r, w)
            return 1 if res else 0

    base_env = dict(os.environ)
    results = []
    for case in job["cases"]:
        os.environ.clear()
        os.environ.update(base_env)
        for k, v in case.get("hostenv", {}).items():
            if v is None:
                os.environ.pop(k, None)
            else:
                os.environ[k] = v
        if case.get("host_builds_an_env_from_the_default"):
            # what host code does for ANOTHER server: take the default environment and add to it.  The mapping it was handed is
            # its own: nothing it writes there may show up in a later default environment
            mine = get_default_environment()
            try:
                mine["WAREHOUSE_API_TOKEN"] = "host-secret-for-another-server"
                mine["PATH"] = "/scribbled/by/the/host"
                mine.pop("HOME", None)
            except TypeError:
                pass                    # an immutable mapping is as good
        res = {"id": case["id"], "host": dict(os.environ), "denv": dict(get_default_environment()), "steps": [],
               "stragglers": 0}
        dirs = case["dirs"]
        collect(dirs)
        pre = case.get("pre")
        if pre:
            # the file at this path held another configuration a moment ago and was loaded once; it is rewritten in place
            # (same path, same process, within the same second) before the entry points run
            with open(case["path"], "w", encoding="utf-8") as f:
                f.write(pre["text"])
            with contextlib.suppress(Exception):
                anyio.run(load_config, case["path"], pre["name"])
            with open(case["path"], "w", encoding="utf-8") as f:
                f.write(pre["final"])
        for step in case["steps"]:
            ob = {"ep": step["ep"]}
            signal.alarm(STEP_TIMEOUT if HANGS["n"] < 3 else 3)      # once hangs have been seen, the rest get 3 s each
            try:
                if step["ep"] == "loader":
                    try:
                        loaded = anyio.run(load_config, case["path"], step["name"])
                    except StepTimeout:
                        raise
                    except Exception as e:
                        ob.update(outcome="raise", cls=err_class(e), type=type(e).__name__)
                    else:
                        if isinstance(loaded, tuple) and len(loaded) == 2 and hasattr(loaded[0], "command"):
                            p, t = loaded
                            env = getattr(p, "env", None)
                            ob.update(outcome="ok", command=p.command, args=list(p.args) if p.args is not None else None,
                                      env=dict(env) if env is not None else None,
                                      timeout=None if t is None else dec_of_number(t))
                            if step.get("launch"):
                                try:
                                    n = anyio.run(launch_loaded, p)
                                except StepTimeout:
                                    raise
                                except Exception as e:
                                    n = 0
                                    ob["launch_error"] = type(e).__name__
                                res["stragglers"] += settle()
                                ob["launch"] = {"connected": n, "procs": collect(dirs)}
                        else:
                            ob.update(outcome="shape", type=type(loaded).__name__)
                elif step["ep"] == "cli":
                    argv = sys.argv
                    sys.argv = ["chuk_mcp", "--config", case["path"], "--server", step["name"]] + (["--verbose"] if step.get("verbose") else [])
                    code = "none"
                    try:
                        cli_main.main()
                    except SystemExit as e:
                        code = e.code
                    except StepTimeout:
                        raise
                    except Exception as e:
                        code = "exception:" + type(e).__name__
                    finally:
                        sys.argv = argv
                    res["stragglers"] += settle()
                    ob.update(exit=code, procs=collect(dirs))
                elif step["ep"] == "runner":
                    got = []

                    async def command_func(streams):
                        got.append(len(streams))

                    exc = None
                    try:
                        server_manager.run_command(command_func, case["path"], list(step["names"]))
                    except StepTimeout:
                        raise
                    except Exception as e:
                        exc = type(e).__name__
                    res["stragglers"] += settle()
                    ob.update(called=len(got), connected=got[0] if got else 0, exception=exc, procs=collect(dirs))
                else:
                    ob["error"] = "unknown step"
            except StepTimeout:
                ob["hang"] = True
                HANGS["n"] += 1
                res["stragglers"] += settle()
                ob["procs"] = collect(dirs)
            finally:
                signal.alarm(0)
            res["steps"].append(ob)
        results.append(res)
    with contextlib.suppress(Exception):
        log.flush()
    tmp = out_path + ".tmp"
    with open(tmp, "w", encoding="utf-8") as f:
        json.dump({"results": results, "cleared": len(cleared), "backend": backend,
                   "encoding": locale.getpreferredencoding(False)}, f)
    os.replace(tmp, out_path)


if __name__ == "__main__":
    main()

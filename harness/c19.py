"""C19 — server session bookkeeping behaves like a map from unique ids to records."""
from __future__ import annotations

import itertools
import json
import types
import uuid as real_uuid

import lib
from lib import sx, call

META = {
    "level": "Proof (refinement): the model of InMemorySessionManager + the dispatcher's session handling refines a simple map "
             "id -> record for EVERY operation and every history: each of create/get/update_activity/delete/cleanup/list/count/"
             "clear/initialize/request-with-session-id does to the store pointwise what the specification says and returns what it "
             "says; ids are unique in every reachable store and no id is handed out twice; cleanup removes exactly the sessions with "
             "now - last_activity > max_age (the boundary stays) and changes nothing else; a successful initialize creates exactly one "
             "session recording the client's info and the version that is in the response. Generic in the id type, the id supply "
             "(assumed injective: the uuid4 assumption) and the version policy. The model is tied to the real code by an exhaustive "
             "model-based run with time.time and uuid.uuid4 replaced from the harness.",
    "note": "Trusted: Coq kernel, extraction, the harness (clock and uuid4 replacement, observation of the sessions dict). The uuid4 "
            "assumption (the id supply never repeats) is a premise of the theorems. 'Listing returns a copy' is by construction in a "
            "functional model (Gallina values are immutable); its tie to the code is the harness mutating the real returned dict and "
            "comparing the store afterwards. Modelled not verified: CPython dict, float subtraction (exact on the integer-valued clock).",
    "technique": "Coq proof by refinement to an abstract finite map with an invariant over all histories; exhaustive + seeded "
                 "model-based correspondence; reflected-by-construction boolean step checker applied to the implementation's observations",
    "design_ref": "DESIGN.md section 6 (C19)",
}
GEN = ["VersionsGen.v", "SessionsGen.v"]
TARGETS = ["Gen/VersionsGen", "Gen/SessionsGen", "Spec/C19", "Model/Sessions", "Proofs/Sessions", "Proofs/SessionsSpec", "Props/C19", "Drv/C19Spec", "Drv/C19"]

TRUSTED = [
    "Coq 8.16.1 kernel (coqc); coqchk re-check in the thorough tier",
    "axioms: none (every C19 theorem prints 'Closed under the global context'); the theorems are closed over Section variables: "
    "the id type with a correct equality test, the id supply `fresh` with the hypothesis that it is injective (the uuid4 "
    "assumption), the version policy `answer`",
    "hand-written model Model/Sessions.v (insertion-ordered association list = the dict), tied by the model-based run below",
    "Gen/VersionsGen.v (SUPPORTED_VERSIONS, CURRENT_VERSION) is regenerated from the code on every run; it is used only by the "
    "driver's instance of the version policy, the theorems hold for every policy",
    "the harness replaces chuk_mcp.server.session.memory.time and chuk_mcp.server.session.base.uuid (module attributes) by a "
    "controlled clock and a counter; no hook in /repo",
    "extraction: ExtrOcamlBasic only; ocaml/main.ml text<->sexp",
    "modelled, not verified: CPython dict semantics, IEEE subtraction (exact: the clock is integer-valued and < 2^53)",
]
ASSUME = [
    "uuid4 never returns the same value twice (premise `fresh_inj` of every theorem that speaks about ids)",
    "time.time() is read once per operation in the model; create_session reads it twice (created_at, last_activity): the harness "
    "clock is constant during an operation, so a clock that advances between the two reads is outside the run (created_at is "
    "never used by the code)",
    "an id-less `initialize` (notification form) also creates a session although nothing is answered: it is modelled faithfully "
    "and specified (OInitialize false), but it is not a 'successful initialize' in the property's sense",
    "client info and metadata are compared as JSON values (tokens); the store keeps the caller's dict object itself (aliasing "
    "with the caller is not part of the property)",
]

UNKNOWN = int("f" * 32, 16)
STATS = {"cleanup:idle==limit(boundary)": 0, "cleanup:idle>limit": 0, "cleanup:idle<limit": 0}


# --------------------------------------------------------------------------- #
# Seams
# --------------------------------------------------------------------------- #
class Clock:
    """Model time is integral TICKS; the real clock shows ticks / scale seconds.  scale is a power of two, so every
    timestamp, every difference and every limit is an exact binary fraction: sub-second idle times are exercised
    without any floating-point rounding (scale 1 = whole seconds)."""

    def __init__(self):
        self.now = 0
        self.scale = 1

    def time(self):
        return self.now / self.scale


class Ids:
    def __init__(self):
        self.n = 0

    def uuid4(self):
        u = real_uuid.UUID(int=self.n)
        self.n += 1
        return u


CLOCK = Clock()
IDS = Ids()


def install_seams():
    import chuk_mcp.server.session.memory as memory
    import chuk_mcp.server.session.base as base
    class _Proxy:
        """a module stand-in: the named attributes are ours, everything else is the real module's"""

        def __init__(self, real, **over):
            self.__dict__["_real"] = real
            self.__dict__.update(over)

        def __getattr__(self, name):
            return getattr(self._real, name)

    import time as _time
    memory.time = _Proxy(_time, time=CLOCK.time)
    base.uuid = _Proxy(real_uuid, uuid4=IDS.uuid4)
    # the seams took: a fresh manager hands out id 0 at the fake time
    CLOCK.now, IDS.n = 41, 0
    try:
        m = memory.InMemorySessionManager()
        sid = m.create_session({}, "v")
    except Exception:      # noqa: BLE001 - whatever the tree under test does with the replaced names
        return False
    if sid != "0" * 32 or m.sessions[sid].last_activity != 41.0 or m.sessions[sid].created_at != 41.0:
        return False
    return True


def id_supply_probe(ctx):
    """The model's id supply is an INJECTIVE sequence (the uuid4 assumption).  What must hold of the real supply, whatever it
    is built from: ids of sessions that are live at the same time are distinct, also when the application reseeds the global
    `random` module between creations (application code does that; os.urandom-based uuid4 is unaffected by it)."""
    import random as _random
    import importlib
    import uuid as _uuid
    import chuk_mcp.server.session.base as base
    import chuk_mcp.server.session.memory as memory
    saved = base.uuid
    base.uuid = _uuid                        # the real module, not the counter
    try:
        for seeds in ([None] * 6, [7, 7, 7], [1, 2, 1, 2], [42] * 5, [0, None, 0]):
            m = memory.InMemorySessionManager()
            ids = []
            for sd in seeds:
                if sd is not None:
                    _random.seed(sd)
                ids.append(m.create_session({"n": len(ids)}, "2025-06-18"))
            case = {"id-supply": {"random.seed before each create": seeds}}
            ctx.case(case, nontrivial=True)
            ctx.count("id-supply:" + ("reseeded" if any(x is not None for x in seeds) else "untouched"))
            ctx.spec_total += 1
            if len(set(ids)) != len(ids) or len(m.sessions) != len(ids):
                ctx.spec_violation("session-id-repeated-while-live", case,
                                   f"{len(ids)} creations, {len(set(ids))} distinct ids, {len(m.sessions)} sessions in the store: "
                                   f"a live session was overwritten")
    finally:
        base.uuid = saved
        _random.seed()


NEAR = 1 << 130      # ids >= NEAR are NEAR-MISSES of a real id: the same text padded with white space or in upper case


def sid_str(k):
    if k >= NEAR:
        j, v = divmod(k - NEAR, 4)
        base = f"{j:032x}"
        return [" " + base, base + "\n", base.upper() if base.upper() != base else base + " ", "\t" + base + "\t"][v]
    return f"{k:032x}"


def mk(k):
    """the model's view of an id: a near-miss is simply an id nobody was given"""
    return UNKNOWN if k >= NEAR else k


# tokens for client info / metadata values
TOKENS = {}
TOKEN_VALUES = []


def tok(v):
    key = json.dumps(v, sort_keys=True, default=repr)
    if key not in TOKENS:
        TOKENS[key] = len(TOKEN_VALUES)
        TOKEN_VALUES.append(v)
    return TOKENS[key]


tok({})          # token 0 = {}


def snapshot(d):
    """canonical content of a sessions dict: tuple of (id, client, version, created, last, meta)"""
    out = []
    for k, s in d.items():
        if k != s.session_id:
            raise Obs("session stored under a key that is not its session_id")
        out.append(rec_of(k, s))
    return tuple(out)


class Obs(Exception):
    """the implementation produced something the observation format cannot express (reported as a spec violation)"""


def as_int(x):
    """a timestamp read back from the store -> ticks"""
    if isinstance(x, bool) or not isinstance(x, (int, float)):
        raise Obs(f"timestamp {x!r} is not a number")
    x = x * CLOCK.scale
    if x != int(x):
        raise Obs(f"timestamp {x!r} ticks is not integral")
    return int(x)


def rec_of(k, s):
    try:
        ik = int(k, 16)
    except (TypeError, ValueError):
        raise Obs(f"session id {k!r} is not what the id supply returned")
    if not isinstance(s.protocol_version, str):
        raise Obs(f"recorded protocol_version {s.protocol_version!r} is not a string")
    return (ik, tok(s.client_info), s.protocol_version, as_int(s.created_at), as_int(s.last_activity), tok(s.metadata))


def enc_rec(r):
    return f"({r[1]} {sx(r[2])} {r[3]} {r[4]} {r[5]})"


def enc_store(snap):
    return "(" + " ".join(f"({r[0]} {enc_rec(r)})" for r in snap) + ")"


# --------------------------------------------------------------------------- #
# Operations
#   ("create", client_value, version, metadata_value|None)   ("get", k) ("touch", k) ("delete", k) ("cleanup", age)
#   ("list",) ("count",) ("clear",) ("init", with_id, client_value|ABSENT, version_value|ABSENT, session)
#   ("request", kind, session)       kind: ping | unknown | notification | response      session: None | "" | k
# --------------------------------------------------------------------------- #
ABSENT = "<absent>"


def enc_vreq(v):
    if v == ABSENT:
        return "0"
    if isinstance(v, str):
        return f"(1 {sx(v)})"
    return "2"


def enc_sess(s):
    return "()" if (s is None or s == "") else f"({mk(s)})"


def enc_op(op):
    t = op[0]
    if t == "create":
        return f"(0 {tok(op[1])} {sx(op[2])} {tok(op[3] or {})})"
    if t == "get":
        return f"(1 {mk(op[1])})"
    if t == "touch":
        return f"(2 {mk(op[1])})"
    if t == "delete":
        return f"(3 {mk(op[1])})"
    if t == "cleanup":
        return f"(4 {op[1]})"
    if t == "list":
        return "(5)"
    if t == "count":
        return "(6)"
    if t == "clear":
        return "(7)"
    if t == "init":
        client = {} if op[2] == ABSENT else op[2]
        return f"(8 {int(op[1])} {tok(client)} {enc_vreq(op[3])} {enc_sess(op[4])})"
    if t == "request":
        return f"(9 {int(op[1] != 'response')} {enc_sess(op[2])})"
    raise ValueError(op)


class World:
    """a fresh real ProtocolHandler (its session_manager is the InMemorySessionManager under test)"""

    def __init__(self):
        from chuk_mcp.server.protocol_handler import ProtocolHandler
        self.ph = ProtocolHandler(SERVER_INFO, CAPS)
        self.mgr = self.ph.session_manager
        IDS.n = 0

    def sess_arg(self, s):
        return s if (s is None or s == "") else sid_str(s)


SERVER_INFO = None
CAPS = None
MSG = {}


def prepare_messages():
    global SERVER_INFO, CAPS
    from chuk_mcp.protocol.types.info import ServerInfo
    from chuk_mcp.protocol.types.capabilities import ServerCapabilities
    from chuk_mcp.protocol.messages.json_rpc_message import JSONRPCMessage, JSONRPCResponse
    SERVER_INFO = ServerInfo(name="t", version="1")
    CAPS = ServerCapabilities()
    MSG["ping"] = JSONRPCMessage(jsonrpc="2.0", id=1, method="ping")
    MSG["unknown"] = JSONRPCMessage(jsonrpc="2.0", id="u", method="no/such/method")
    MSG["notification"] = JSONRPCMessage(jsonrpc="2.0", method="notifications/initialized")
    MSG["response"] = JSONRPCResponse(id=5, result={})


def drive(coro):
    """run a coroutine that never really suspends"""
    try:
        coro.send(None)
    except StopIteration as e:
        return e.value
    raise lib.HarnessError("handle_message suspended")


def apply_op(w, op):
    """execute on the real code; returns the encoded `out`"""
    from chuk_mcp.protocol.messages.json_rpc_message import JSONRPCMessage
    mgr, t = w.mgr, op[0]
    if t == "create":
        sid = mgr.create_session(op[1], op[2], op[3]) if op[3] is not None else mgr.create_session(op[1], op[2])
        return f"(0 {int(sid, 16)})"
    if t == "get":
        s = mgr.get_session(sid_str(op[1]))
        return "(1 ())" if s is None else f"(1 ({enc_rec(rec_of(s.session_id, s))}))"
    if t == "touch":
        r = mgr.update_activity(sid_str(op[1]))
        if not isinstance(r, bool):
            raise Obs(f"update_activity returned {r!r}")
        return f"(2 {int(r)})"
    if t == "delete":
        r = mgr.delete_session(sid_str(op[1]))
        if not isinstance(r, bool):
            raise Obs(f"delete_session returned {r!r}")
        return f"(2 {int(r)})"
    if t == "cleanup":
        return f"(3 {int(mgr.cleanup_expired(op[1] if CLOCK.scale == 1 else op[1] / CLOCK.scale))})"
    if t == "list":
        c = mgr.list_sessions()
        out = f"(4 {enc_store(snapshot(c))})"
        # the caller adds and removes entries in what it got
        for k in list(c)[:1]:
            del c[k]
        c["intruder"] = None
        c.pop(sid_str(1), None)
        c.clear()
        return out
    if t == "count":
        return f"(3 {int(mgr.get_session_count())})"
    if t == "clear":
        return f"(3 {int(mgr.clear_all_sessions())})"
    if t == "init":
        params = {}
        if op[2] != ABSENT:
            params["clientInfo"] = op[2]
        if op[3] != ABSENT:
            params["protocolVersion"] = op[3]
        msg = JSONRPCMessage(jsonrpc="2.0", id=("init-1" if op[1] else None), method="initialize", params=params)
        resp, new_sid = drive(w.ph.handle_message(msg, w.sess_arg(op[4])))
        if not op[1]:
            if resp is not None or new_sid is not None:
                raise Obs("an id-less initialize was answered")
            return "(6)"
        if resp is None or new_sid is None:
            raise Obs("initialize request not answered or no session id returned")
        ver = resp.result["protocolVersion"]
        if not isinstance(ver, str):
            raise Obs(f"answered protocolVersion {ver!r} is not a string")
        return f"(5 {sx(ver)} {int(new_sid, 16)})"
    if t == "request":
        drive(w.ph.handle_message(MSG[op[1]], w.sess_arg(op[2])))
        return "(6)"
    raise ValueError(op)


def run_history(hist, scale=1):
    """hist: list of (now, op), times and ages in ticks; the real clock shows ticks/scale seconds.
    Returns (encoded steps, error) — one encoded step per operation: (fresh_id now op res post|0)"""
    CLOCK.scale = scale
    w = World()
    steps = []
    prev = ()
    for now, op in hist:
        CLOCK.now = now
        fresh_id = IDS.n
        if op[0] == "cleanup":
            for sess in w.mgr.sessions.values():
                d = now - sess.last_activity
                STATS["cleanup:idle==limit(boundary)" if d == op[1] else
                      ("cleanup:idle>limit" if d > op[1] else "cleanup:idle<limit")] += 1
        try:
            res = apply_op(w, op)
            snap = snapshot(w.mgr.sessions)
        except Obs as e:
            return steps, str(e)
        except Exception as e:                  # noqa: BLE001 - the library raised where the simple map would just answer
            return steps, f"raised:{op[0]} raised {type(e).__name__}: {str(e)[:160]}"
        post = "0" if snap == prev else enc_store(snap)
        prev = snap
        steps.append(f"({fresh_id} {now} {enc_op(op)} {res} {post})")
    return steps, None


# --------------------------------------------------------------------------- #
# Histories
# --------------------------------------------------------------------------- #
READ_TAIL = [("list",), ("count",), ("get", 0), ("get", 1), ("get", 2), ("get", UNKNOWN), ("get", NEAR + 0), ("get", NEAR + 1 * 4 + 1),
             ("touch", NEAR + 0 * 4 + 3), ("delete", NEAR + 1 * 4 + 0), ("get", 0), ("get", 1)]
DT = 10


def alphabet():
    c = lambda k: {"name": f"client-{k}"}
    return [
        ("create", c(1), "2025-06-18", None),
        ("touch", 0), ("touch", 1), ("touch", 2),
        ("delete", 0), ("delete", 1), ("delete", 2),
        ("cleanup", DT), ("cleanup", 2 * DT),
        ("clear",),
        ("init", True, c(2), "1999-01-01", 0),          # unsupported: the ANSWERED version differs from the requested one
        ("init", False, ABSENT, "2025-03-26", None),
        ("request", "ping", 1),
        ("request", "response", 0),
    ]


def timed(ops, t0=100, dt=DT):
    """every operation runs DT after the previous one, so idle times are multiples of DT and the two cleanup limits
    (DT, 2*DT) hit now - last = max_age exactly"""
    out, t = [], t0
    for op in ops:
        out.append((t, op))
        t += dt
    return out


def core_alphabet():
    a = alphabet()
    return [a[0], a[1], a[4], a[7], a[8], a[10], a[12]]     # create, touch 0, delete 0, cleanup x2, initialize(session 0), ping(session 1)


def exhaustive(ctx, depth, alpha=None):
    alpha = alpha or alphabet()
    for n in range(0, depth + 1):
        for seq in itertools.product(range(len(alpha)), repeat=n):
            ops = [alpha[i] for i in seq]
            hist = timed(ops)
            t_end = hist[-1][0] + DT if hist else 100
            # the read-only tail runs at the same instant
            yield hist + [(t_end, r) for r in READ_TAIL], n


def seeded(ctx, count, maxlen):
    rng = ctx.rng
    versions = ["2025-06-18", "2025-03-26", "2024-11-05", "1999-01-01", "", "2025-06-18 ", 123, None, ["2025-06-18"], ABSENT]
    clients = [{"name": "a"}, {"name": "b", "version": "1"}, {}, 5, None, ["x"], "s", ABSENT]
    metas = [None, {}, {"k": 1}, {"k": [1, 2]}]
    for _ in range(count):
        n = rng.choice((3, 8, 20, 50, 120, maxlen))
        created = 0
        t = rng.choice((0, 1000, 10 ** 9, 2 ** 40))
        hist = []
        # ages and time steps from a small set so that the boundary now - last = max_age is hit often
        steps = rng.choice(((0, 1, 2), (0, 5, 10, 3600), (1,), (0, 7, -7, 14)))
        ages = rng.choice(((0, 1, 2, 3), (5, 10, 15, 3600, 3605), (0, -1, 7, 14, 21)))
        for _i in range(n):
            t += rng.choice(steps)

            def some_id():
                r = rng.random()
                if r < 0.12:
                    return UNKNOWN
                if r < 0.24 and created:
                    # an id that differs from a real one only in surrounding white space or letter case: another id
                    return NEAR + rng.randrange(created) * 4 + rng.randrange(4)
                if r < 0.3:
                    return created + rng.randrange(0, 3)      # not created yet (may be created later)
                return rng.randrange(0, max(created, 1))

            def some_sess():
                r = rng.random()
                return None if r < 0.25 else ("" if r < 0.35 else some_id())
            k = rng.random()
            if k < 0.2:
                cl = rng.choice(clients[:7])
                op = ("create", cl, rng.choice(versions[:6]), rng.choice(metas))
                created += 1
            elif k < 0.32:
                op = ("touch", some_id())
            elif k < 0.42:
                op = ("delete", some_id())
            elif k < 0.56:
                op = ("cleanup", rng.choice(ages))
            elif k < 0.62:
                op = ("get", some_id())
            elif k < 0.67:
                op = ("list",)
            elif k < 0.71:
                op = ("count",)
            elif k < 0.73:
                op = ("clear",)
            elif k < 0.86:
                op = ("init", rng.random() < 0.8, rng.choice(clients), rng.choice(versions), some_sess())
                created += 1
            else:
                op = ("request", rng.choice(("ping", "unknown", "notification", "response")), some_sess())
            hist.append((t, op))
        yield hist + [(t, r) for r in READ_TAIL[:2]], n


def op_json(op):
    return [x if not isinstance(x, tuple) else list(x) for x in op]


def check_batch(ctx, batch, model, spec):
    """batch: list of (hist, steps, err, kind)"""
    lines_m = [call(0, "(" + " ".join(st) + ")") for _h, st, _e, _k, _s in batch]
    lines_s = [call(2, "(" + " ".join(st) + ")") for _h, st, _e, _k, _s in batch]
    mres = model.run(lines_m) if model else [-1] * len(batch)
    sres = spec.run(lines_s)
    for (hist, steps, err, kind, scale), mi, si in zip(batch, mres, sres):
        case = {"history": [[t, op_json(op)] for t, op in hist], "ticks_per_second": scale}
        ctx.spec_total += 1
        if err is not None:
            ctx.spec_violation("observation-not-expressible:" + err.split(" ")[0], case, err)
            continue
        if si != -1:
            t, op = hist[si]
            ctx.spec_violation(f"not-a-map:{op[0]}", {"history": case["history"][:si + 1], "ticks_per_second": scale},
                               f"step {si} ({op_json(op)} at t={t}) is not what the simple map does: observed {steps[si][:300]}")
        if model and mi != -1:
            t, op = hist[mi]
            mt = model.run([call(1, "(" + " ".join(steps[:mi + 1]) + ")")])[0] if len(ctx.corr_mismatch) < 3 else ["<not fetched>"]
            ctx.mismatch({"history": case["history"][:mi + 1], "ticks_per_second": scale}, steps[mi][:400], json.dumps(mt[-1])[:400],
                         f"step {mi} ({op[0]}): model != implementation")


def check_large_stores(ctx, spec):
    """Expiry on stores far larger than the histories above hold (the quantifier bounds the HISTORIES, not the store): N sessions
    created, a pattern of them kept alive, one cleanup pass; the sessions that go are exactly those the specification's `expired`
    names, wherever they sit in the store."""
    CLOCK.scale = 1
    for N, keep in ((1000, "first-half"), (1001, "all-but-last"), (1300, "first-1000"), (1300, "none"), (2500, "every-3rd"),
                    (5000, "last-10") if (ctx.thorough or ctx.escalated) else (1500, "last-10")):
        w = World()
        CLOCK.now = 100
        ids = [w.mgr.create_session({"name": f"c{i}"}, "2025-06-18") for i in range(N)]
        kept = {"first-half": set(range(N // 2)), "all-but-last": set(range(N - 1)), "first-1000": set(range(1000)), "none": set(),
                "every-3rd": set(range(0, N, 3)), "last-10": set(range(N - 10, N))}[keep]
        CLOCK.now = 100 + 5 * DT
        for i in sorted(kept):
            w.mgr.update_activity(ids[i])
        now, age = 100 + 8 * DT, 4 * DT
        CLOCK.now = now
        last = {ids[i]: (100 + 5 * DT if i in kept else 100) for i in range(N)}
        exp = spec.run([call(3, str(now), str(age), str(last[k])) for k in ids])
        want_gone = {k for k, e in zip(ids, exp) if bool(e)}
        removed = w.mgr.cleanup_expired(age)
        left = set(w.mgr.sessions)
        case = {"large_store": N, "kept_alive": keep, "now": now, "max_age": age}
        ctx.case(case, nontrivial=True)
        ctx.count("large-store:" + ("<=1000" if N <= 1000 else ">1000"))
        ctx.spec_total += 1
        if removed != len(want_gone) or left != set(ids) - want_gone:
            wrongly_left = sorted(ids.index(k) for k in (left & want_gone))[:5]
            wrongly_gone = sorted(ids.index(k) for k in ((set(ids) - left) - want_gone))[:5]
            ctx.spec_violation("not-a-map:cleanup-on-a-large-store", case,
                               f"cleanup returned {removed}, {len(want_gone)} sessions were idle for longer than the limit; "
                               f"positions wrongly left: {wrongly_left}, wrongly removed: {wrongly_gone}")


def explore(ctx, model, spec):
    id_supply_probe(ctx)
    seam = install_seams()
    if not ctx.escalated or seam:
        ctx.oblige("tie:session ids are drawn from uuid.uuid4 and the clock from time.time (the seams the model-based run replaces)",
                   seam, "" if seam else "generate_session_id / time.time no longer go through the replaced names: the model's "
                                        "injective id supply is not tied to the code")
    if not seam:
        ctx.escalated = True
        return
    prepare_messages()
    depth = 5 if ctx.thorough else 4          # an escalated quick run (a broken obligation) keeps the quick depth: minutes, not a quarter of an hour
    batch = []
    boundary = 0

    def flush():
        nonlocal batch
        if batch:
            check_batch(ctx, batch, model, spec)
            batch = []

    def feed(hist, n, kind, scale=1):
        nonlocal boundary
        steps, err = run_history(hist, scale)
        batch.append((hist, steps, err, kind, scale))
        ctx.case({"h": [[t, op_json(op)] for t, op in hist[:n]], "s": scale}, nontrivial=n > 0)
        ctx.count(f"clock:ticks-per-second={scale}")
        ctx.count(f"{kind}:len{n if n < 6 else ('6-20' if n <= 20 else ('21-100' if n <= 100 else '101+'))}")
        for t, op in hist[:n]:
            ctx.count("op:" + op[0])
        ctx.count("read-only-tail-observations", len(hist) - n)
        if len(batch) >= 4000:
            flush()

    for hist, n in exhaustive(ctx, depth):
        feed(hist, n, "exhaustive")
    flush()
    # two levels deeper over the 7 core operations (only the new, longer sequences)
    stride = 1 if ctx.thorough else 3      # quick: every third of the longest core sequences
    for j, (hist, n) in enumerate(exhaustive(ctx, depth + 2, core_alphabet())):
        if n > depth and (n < depth + 2 or j % stride == 0):
            feed(hist, n, "exhaustive-core")
    flush()
    for i, (hist, n) in enumerate(seeded(ctx, ctx.budget(400, 6000), 200)):
        feed(hist, n, "seeded", (1, 2, 4, 8)[i % 4])      # whole seconds, halves, quarters, eighths (exact in binary)
    flush()
    # boundary accounting: replay the spec's `expired` on (now - last == age) cases the exhaustive run is built around
    b = spec.run([call(3, "130", "20", "110"), call(3, "131", "20", "110"), call(3, "130", "20", "111")])
    if [bool(x) for x in b] != [False, True, False]:
        raise lib.HarnessError("spec boundary self-check failed")
    check_large_stores(ctx, spec)
    for k, v in STATS.items():
        ctx.count(k, v)
    if not STATS["cleanup:idle==limit(boundary)"]:
        raise lib.HarnessError("the boundary now - last = max_age was never exercised")
    ctx.extra["exhaustive_depth"] = depth
    ctx.extra["alphabet"] = len(alphabet())


def run(ctx):
    lib.standard_obligations(ctx, GEN, TARGETS)
    spec = lib.Driver("C19Spec")
    try:
        model = lib.Driver("C19")
        ctx.oblige("build:driver-model(C19)", True)
    except lib.HarnessError as e:
        model = None
        ctx.oblige("build:driver-model(C19)", False, str(e)[-600:])
    if ctx.broken_obligations:
        ctx.escalated = True
    explore(ctx, model, spec)
    if ctx.corr_mismatch and not ctx.escalated and not ctx.spec_fail:
        ctx.escalated = True
        explore(ctx, model, spec)
    for dim in ("op:", "exhaustive:", "seeded:"):
        if len([k for k in ctx.hist if k.startswith(dim)]) < 2 and not ctx.broken_obligations:
            raise lib.HarnessError(f"generator dimension {dim} came out constant")
    if ctx.thorough:
        lib.coqchk(ctx, "C19")
    ctx.exhaustive = True
    ctx.rule = ("exhaustive: ALL sequences of length <= depth (quick 4, thorough/escalated 5) over 14 state-changing operations, plus all "
                "sequences of length depth+1 and depth+2 over the 7 core ones {create, touch 0, delete 0, cleanup x2, initialize, ping}, on a "
                "3-session universe {create, touch 0/1/2, delete 0/1/2, cleanup(10), cleanup(20), clear, initialize request (unsupported version) with "
                "session 0, id-less initialize, ping with session 1, response-shaped message with "
                "session 0}, one operation every 10 time units so that both cleanup limits meet now - last = max_age exactly; after "
                "EVERY step the sessions dict is observed, and every sequence ends with the read-only operations {list + add/remove/"
                "clear on the returned dict, count, get 0/1/2/unknown} (all prefixes are themselves enumerated). seeded: histories "
                "of length 3..200 over all 10 operation kinds with clock steps incl. 0 and negative, limits incl. 0 and negative, "
                "unknown / not-yet-created / deleted ids, empty-string session ids, client info and versions of every JSON shape. "
                "The real code runs with time.time and uuid.uuid4 replaced. distinct = distinct histories; non-trivial = at least "
                "one state-changing operation")
    return lib.finish(ctx, TRUSTED, ASSUME)


def replay(ctx, data):
    spec = lib.Driver("C19Spec")
    model = lib.Driver("C19")
    install_seams()
    prepare_messages()
    case = data.get("case") or {}
    if "large_store" in case:
        check_large_stores(ctx, spec)
        for f in ctx.spec_fail:
            print("REPRODUCED", f["class"], f["case"], f["detail"])
        return 1 if ctx.spec_fail else 0
    if "history" not in case:
        print("nothing to replay in", data.get("kind"))
        return 0

    def tup(x):
        return tuple(x)
    hist = [(t, tup(op)) for t, op in case["history"]]
    steps, err = run_history(hist, int(case.get("ticks_per_second", 1)))
    for (t, op), s in zip(hist, steps):
        print(f"t={t} {op} -> {s[:160]}")
    if err:
        print("REPRODUCED (observation):", err)
        return 1
    si = spec.run([call(2, "(" + " ".join(steps) + ")")])[0]
    mi = model.run([call(0, "(" + " ".join(steps) + ")")])[0]
    print("first step rejected by the specification:", si, " first step where the model differs:", mi)
    print("REPRODUCED" if si != -1 else "not reproduced")
    return 1 if si != -1 else 0

"""C06 -- stdio outbound framing: one message, one line, in order, content preserved."""
from __future__ import annotations

import itertools
import json
import os

import anyio

import lib
from lib import sx, call
from fakeproc import FakeProcess, patched_open_process

META = {
    "level": "Proof: for ALL message sequences and ALL serialisers (universally quantified; only assumption: a compact dump "
             "contains no LF/CR code point, inhabited by a reference JSON encoder proved to emit no control byte) the modelled "
             "_stdin_writer sends, in the order accepted, one write per serialisable message = UTF-8 body + exactly one LF, "
             "drops an unserialisable message alone, puts no LF/CR byte inside a line (an ASCII byte occurs in UTF-8 only as "
             "itself), the body decodes back to the serialiser's text, and stdin is closed iff the write stream was closed, after "
             "everything sent before. For the writer BEFORE 'fix: stdio writer re-serialises a pre-serialised message that contains "
             "line breaks' (policy Verbatim) the full statement is REFUTED by a pre-serialised string containing a line break "
             "(forwarded verbatim as several lines) and proved for sequences without such strings; for the writer at /repo HEAD "
             "(policy Recompact, that fix applied) it is proved without restriction. Tied to the real "
             "StdioClient._stdin_writer by a differential run over all shape sequences of length <= 6.",
    "note": "Trusted: Coq kernel, extraction (ExtrOcamlBasic only), the harness and its capturing process.stdin. Section variables: "
            "model_dump_json, model_dump, fast_json.dumps/loads (the harness feeds the model the REAL serialisers' results per "
            "message). Modelled not verified: orjson/stdlib json/pydantic, CPython str.encode (tied by the run), anyio memory "
            "streams; process.stdin.send is assumed to accept every write (live child). The harness detects which raw-string "
            "policy the tree under test implements (Verbatim = before the fix, Recompact = /repo HEAD) and runs the model with it.",
    "technique": "Coq proof (structural induction over message sequences, UTF-8 encoder arithmetic by lia); differential "
                 "correspondence, exhaustive over shape sequences",
    "design_ref": "DESIGN.md section 6 (C06)",
}
GEN = []
TARGETS = ["Base/StdioUtf8", "Model/StdioOut", "Model/Lines", "Spec/C05", "Spec/C06", "Proofs/StdioUtf8", "Proofs/Lines",
           "Proofs/StdioOut", "Proofs/StdioOutMerge", "Props/C06"]

TRUSTED = [
    "Coq 8.16.1 kernel (coqc); coqchk re-check in the thorough tier; vm_compute/native_compute not used",
    "axioms: none (every C06 theorem prints 'Closed under the global context')",
    "Section variables: dump_json, model_dump, dumps, loads (external serialisers, None = raises); hypotheses: compact dumps "
    "contain no LF/CR (framing theorems), codec round trip (C06_decoded_equals_message only)",
    "hand-written model Model/StdioOut.v (type dispatch, f'{json_str}\\n'.encode(), per-message try/continue, stdin close) "
    "and Base/StdioUtf8.v (str.encode) tied by the correspondence run below",
    "extraction: ExtrOcamlBasic only; ocaml/main.ml text<->sexp; harness/fakeproc.py capturing stdin",
    "modelled, not verified: orjson, stdlib json, pydantic-core, CPython, anyio memory streams",
]
ASSUME = [
    "process.stdin.send accepts every write (the child is alive and reading)",
    "content oracle: decoded line (stdlib json.loads of the UTF-8 text) == the JSON value the harness built the message from "
    "(top-level None members of typed messages omitted)",
    "messages outside the property's three shapes (non-JSON strings, lone surrogates, bare lists/None) are judged by the "
    "correspondence only",
]

STRS = ["", "a", "a\nb", "x\r\ny", "\u2028\u2029", "\x00", "\"q\"", "back\\slash", "\U0001F600", "\u00e9\u20ac", "\u0085",
        "\t\x0b\x0c\x1b\x7f", "{\n}", "\\n", "\ufeff", "\ud7ff\ue000", " "]


def payloads():
    out = []
    for s in STRS:
        out.append({"s": s})
    out += [{}, {"a": None, "b": [None, {"c": None}]}, {"n": 0, "m": -1, "big": 2 ** 63, "u": 2 ** 64 - 1, "huge": 2 ** 70},
            {"f": 0.1, "g": 1e308, "z": -0.0, "t": True, "x": False}, {"k\nwith break": "v", "\u2028": "\r"},
            {"deep": [[[[{"x": ["a\nb", {"y": "\U0001F600"}]}]]]]}, {"l": [], "d": {}, "e": ""},
            {"long": "a\n" * 50}]
    # the SAME container object in several places (one defaults dict reused, one row listed three times, one empty list under
    # two keys): a DAG, not a cycle - the JSON text repeats the value
    row, empty, dflt = {"id": 7, "tags": ["x"]}, [], {"retries": 3}
    out += [{"rows": [row, row, row]}, {"a": empty, "b": empty}, {"opts": dflt, "nested": {"opts": dflt, "l": [dflt]}}]
    # integers outside 64 bits that are not exactly a double, each as the FIRST element of an array and nowhere else (in a
    # compact text such a number follows "[" - not ":" or "," or a space)
    out += [{"values": [18446744073709551617, 7], "more": [[-9223372036854788153]]}, {"v": [[[2 ** 70 + 1]]]},
            {"v": [-(2 ** 63) - 12345, "x"]}]
    return out


PAYLOADS = payloads()

# shape variants: name -> (kind group, judged by the spec oracle?)
SHAPES = {
    "typed-req": ("typed", True), "typed-notif": ("typed", True), "typed-res": ("typed", True), "typed-err": ("typed", True),
    "typed-unified": ("typed", True),
    "dict": ("dict", True),
    "raw-compact": ("raw", True), "raw-spaced": ("raw", True), "raw-pretty": ("raw", True), "raw-pretty-crlf": ("raw", True),
    "raw-trailing-newline": ("raw", True), "raw-leading-newline": ("raw", True), "raw-compact-trailing-newline": ("raw", True),
    "dumponly": ("other", True),
    "list": ("other", False), "none": ("other", False), "raw-not-json": ("other", False),
    "raw-not-json-break": ("other", False), "dict-lone-surrogate": ("other", False),
    "unser-dict-set": ("unser", True), "unser-object": ("unser", True), "unser-dict-object": ("unser", True),
    "unser-typed-object": ("unser", True), "unser-raw-surrogate": ("unser", True), "unser-dumponly-raises": ("unser", True),
    "unser-dict-bytes": ("unser", True),
    "unser-dict-deep": ("unser", True),          # nested far beyond the recursion limit: dumps AND repr raise RecursionError
    "unser-repr-raises": ("unser", True),        # not serialisable, and its __repr__ raises as well
}
BY_GROUP = {}
for _n, (_g, _j) in SHAPES.items():
    BY_GROUP.setdefault(_g, []).append(_n)


class ReprRaises:
    def __repr__(self):
        raise RuntimeError("no repr")


def deep_dict(n=3000):
    d = cur = {}
    for _ in range(n):
        cur["a"] = {}
        cur = cur["a"]
    return d


class DumpOnly:
    def __init__(self, d, fail=False):
        self._d, self._fail = d, fail

    def model_dump(self, **kw):
        if self._fail:
            raise RuntimeError("cannot dump")
        return self._d


def build(desc):
    """descriptor {'shape', 'tag', 'p' (payload index)} -> (object to send, expected decoded value or None, serialisable?)"""
    from chuk_mcp.protocol.messages.json_rpc_message import (JSONRPCMessage, JSONRPCRequest, JSONRPCNotification,
                                                             JSONRPCResponse, JSONRPCError)
    shape, tag = desc["shape"], desc["tag"]
    pl = PAYLOADS[desc["p"] % len(PAYLOADS)]
    if desc.get("large"):
        pl = {"large": "x" * 70_000, "tail": "\u2028"}        # a line beyond 64 KiB: still ONE write
    mid = f"m{tag}" if tag % 2 else tag
    if shape == "typed-req":
        d = {"jsonrpc": "2.0", "id": mid, "method": "x/y", "params": pl}
        return JSONRPCRequest(**d), d, True
    if shape == "typed-notif":
        d = {"jsonrpc": "2.0", "method": "notifications/x", "params": {"k": tag, **pl}}
        return JSONRPCNotification(**d), d, True
    if shape == "typed-res":
        d = {"jsonrpc": "2.0", "id": mid, "result": pl}
        return JSONRPCResponse(**d), d, True
    if shape == "typed-err":
        d = {"jsonrpc": "2.0", "id": mid, "error": {"code": -32000 - tag, "message": STRS[desc["p"] % len(STRS)], "data": pl}}
        return JSONRPCError(**d), d, True
    if shape == "typed-unified":
        d = {"jsonrpc": "2.0", "id": mid, "method": "u", "params": pl}
        return JSONRPCMessage(**d), d, True          # result/error are None -> omitted
    if shape == "dict":
        d = {"jsonrpc": "2.0", "id": mid, "method": "d", "params": pl}
        return d, d, True
    if shape.startswith("raw-") and shape not in ("raw-not-json", "raw-not-json-break"):
        d = {"jsonrpc": "2.0", "id": mid, "method": "r", "params": pl}
        if shape == "raw-compact":
            s = json.dumps(d, ensure_ascii=False, separators=(",", ":"))
        elif shape == "raw-spaced":
            s = json.dumps(d)
        elif shape == "raw-pretty":
            s = json.dumps(d, indent=2, ensure_ascii=False)
        elif shape == "raw-pretty-crlf":
            s = json.dumps(d, indent=1).replace("\n", "\r\n")
        elif shape == "raw-trailing-newline":
            s = json.dumps(d, ensure_ascii=False) + "\n"
        elif shape == "raw-compact-trailing-newline":
            s = json.dumps(d, ensure_ascii=False, separators=(",", ":")) + "\n"
        else:
            s = "\n" + json.dumps(d)
        return s, d, True
    if shape == "dumponly":
        d = {"jsonrpc": "2.0", "id": mid, "result": pl}
        return DumpOnly(d), d, True
    if shape == "list":
        d = [tag, pl]
        return d, d, True
    if shape == "none":
        return None, None, True
    if shape == "raw-not-json":
        return f"hello {tag}", None, True
    if shape == "raw-not-json-break":
        return f"hello\n{tag}", None, True
    if shape == "dict-lone-surrogate":
        d = {"id": mid, "s": "\ud800"}
        return d, d, True
    if shape == "unser-dict-set":
        return {"id": mid, "x": {1, 2}}, None, False
    if shape == "unser-object":
        return object(), None, False
    if shape == "unser-dict-object":
        return {"id": mid, "params": {"o": object()}}, None, False
    if shape == "unser-typed-object":
        return JSONRPCRequest(id=mid, method="m", params={"o": object()}), None, False
    if shape == "unser-raw-surrogate":
        return '{"id":"' + f"m{tag}" + '","s":"\ud800"}', None, False
    if shape == "unser-dumponly-raises":
        return DumpOnly({}, fail=True), None, False
    if shape == "unser-dict-bytes":
        return {"id": mid, "b": b"ab"}, None, False
    if shape == "unser-dict-deep":
        return {"id": mid, "params": deep_dict()}, None, False
    if shape == "unser-repr-raises":
        return {"id": mid, "params": {"o": ReprRaises()}}, None, False
    raise ValueError(shape)


def serialiser_results(obj):
    """What the REAL serialisers return for this message in isolation -> model message (kind, text?, aux?)."""
    from chuk_mcp.protocol import fast_json

    def attempt(f):
        try:
            r = f()
            return r if isinstance(r, str) else None
        except Exception:
            return None

    if isinstance(obj, str):
        return 4, obj, attempt(lambda: fast_json.dumps(fast_json.loads(obj)))
    if isinstance(obj, dict):
        return 2, attempt(lambda: fast_json.dumps(obj)), None
    if getattr(obj, "model_dump_json", None) is not None:
        return 0, attempt(lambda: obj.model_dump_json(exclude_none=True)), None
    if getattr(obj, "model_dump", None) is not None:
        return 1, attempt(lambda: fast_json.dumps(obj.model_dump(exclude_none=True))), None
    return 3, attempt(lambda: fast_json.dumps(obj)), None


def sx_model_msg(kind, text, aux):
    return "(" + " ".join([str(kind), lib.sxo(text), lib.sxo(aux)]) + ")"


# --------------------------------------------------------------------------- #
# Implementation side
# --------------------------------------------------------------------------- #
def new_client():
    from chuk_mcp.transports.stdio.stdio_client import StdioClient
    from chuk_mcp.transports.stdio.parameters import StdioParameters
    return StdioClient(StdioParameters(command="fake-child", args=[]))


async def writer_idle(client, proc, want_closed=False, spins=4000):
    """Wait until the writer has taken everything from the outgoing stream and waits for more (or has closed stdin)."""
    for _ in range(spins):
        await anyio.sleep(0)
        if want_closed:
            if proc.stdin.closed:
                return True
            continue
        st = client._outgoing_recv.statistics()
        if st.current_buffer_used == 0 and st.tasks_waiting_receive >= 1:
            return True
    return False


async def send_or_giveup(w, obj, spins=2000):
    """Send on the write stream without ever blocking for good: a writer task that has died stops consuming, and a
    plain `await w.send()` would then hang the harness.  False = the writer did not take the message."""
    for _ in range(spins):
        try:
            w.send_nowait(obj)
            return True
        except anyio.WouldBlock:
            await anyio.sleep(0)
        except (anyio.BrokenResourceError, anyio.ClosedResourceError):
            return False
    return False


async def run_sequences(seqs, via=frozenset()):
    """seqs: list of (descriptors, close?).  One client per closing sequence, a shared one for the others (replaced by a
    fresh one when its writer stops consuming).  Returns per sequence (writes, closed, idle_reached)."""
    out = [None] * len(seqs)
    todo = [i for i, (_d, close) in enumerate(seqs) if not close]
    while todo:
        proc = FakeProcess()
        with patched_open_process(proc):
            client = new_client()
            async with client:
                _r, w = client.get_streams()
                while todo:
                    i = todo.pop(0)
                    descs = seqs[i][0]
                    n0 = len(proc.stdin.writes)
                    alive = True
                    for d in descs:
                        if not await send_or_giveup(w, build(d)[0]):
                            alive = False
                            break
                    ok = alive and await writer_idle(client, proc)
                    out[i] = (list(proc.stdin.writes[n0:]), proc.stdin.closed, ok)
                    if not ok:
                        break          # this client's writer is gone or stuck: the next sequence gets a fresh client
                proc.stdout.close()
    for i, (descs, close) in enumerate(seqs):
        if not close:
            continue
        proc = FakeProcess()
        with patched_open_process(proc):
            client = new_client()
            async with client:
                _r, w = client.get_streams()
                alive = True
                for j, d in enumerate(descs):
                    if i in via and j % 2 == 0:
                        # the older entry point of the same queue, StdioClient.send_json(msg): one queue, one writer, one order -
                        # and closing the write stream afterwards still ends the child's stdin
                        sent = False
                        with anyio.move_on_after(2):
                            try:
                                await client.send_json(build(d)[0])
                                sent = True
                            except (anyio.BrokenResourceError, anyio.ClosedResourceError):
                                pass
                        if not sent:
                            alive = False
                            break
                        continue
                    if not await send_or_giveup(w, build(d)[0]):
                        alive = False
                        break
                if alive:
                    await writer_idle(client, proc)
                early = proc.stdin.closed
                await w.aclose()
                ok = await writer_idle(client, proc, want_closed=True)
                out[i] = (list(proc.stdin.writes), proc.stdin.closed and not early, ok and alive)
                proc.stdout.close()
    return out


async def _run_with_stdout_eof(descs, after):
    """The child closes its STDOUT after `after` messages (a one-way / sink-style server) but keeps reading its stdin: what
    the application sends afterwards is still to be written."""
    proc = FakeProcess()
    with patched_open_process(proc):
        client = new_client()
        async with client:
            _r, w = client.get_streams()
            alive = True
            for k, d in enumerate(descs):
                if k == after:
                    await writer_idle(client, proc)
                    proc.stdout.close()
                    for _ in range(20):
                        await anyio.sleep(0)
                if not await send_or_giveup(w, build(d)[0]):
                    alive = False
                    break
            ok = alive and await writer_idle(client, proc)
            return list(proc.stdin.writes), proc.stdin.closed, ok


def check_stdout_eof(ctx, seqs):
    """metamorphic: the bytes written for a sequence do not depend on whether the child's stdout has reached EOF meanwhile"""
    picked = [(d, c) for d, c in seqs if 2 <= len(d) <= 6 and not c and all(build(x)[2] for x in d)][:ctx.budget(60, 400)]
    normal = anyio.run(run_sequences, picked)
    for (descs, _c), (writes, _closed, _idle) in zip(picked, normal):
        for after in (0, 1):
            w2, closed2, ok2 = anyio.run(_run_with_stdout_eof, descs, after)
            case = {"messages": descs, "close": False, "child_closes_its_stdout_after": after}
            ctx.case(case, nontrivial=True)
            ctx.count("stdout-eof:after-%d" % after)
            ctx.spec_total += 1
            if w2 != writes or closed2:
                ctx.spec_violation("writes-depend-on-the-child's-stdout" if not closed2 else "stdin-closed-while-stream-open:stdout-eof",
                                   case, f"{len(writes)} writes while stdout is open, {len(w2)} once it has reached EOF; stdin closed={closed2}")


async def _probe_policy():
    proc = FakeProcess()
    with patched_open_process(proc):
        client = new_client()
        async with client:
            _r, w = client.get_streams()
            await w.send('{\n "probe": 1\n}')
            await writer_idle(client, proc)
            data = proc.stdin.data()
            proc.stdout.close()
    return 0 if data.count(b"\n") > 1 else 1


# --------------------------------------------------------------------------- #
def gen_sequences(ctx):
    rng = ctx.rng
    seqs = []
    tag = itertools.count(1)
    rot = {g: itertools.cycle(v) for g, v in BY_GROUP.items()}
    pc = itertools.count(0)

    def desc(shape):
        return {"shape": shape, "tag": next(tag), "p": next(pc)}

    # (a) every sequence of length 0..6 over the four groups typed / dict / raw / unserialisable; the concrete shape
    #     variant and payload rotate, so every variant x payload occurs at every position many times
    groups = ["typed", "dict", "raw", "unser"]
    maxlen = ctx.budget(6, 7)
    for n in range(0, maxlen + 1):
        for combo in itertools.product(groups, repeat=n):
            seqs.append(([desc(next(rot[g])) for g in combo], (len(seqs) % 5 == 0)))
    ctx.extra["exhaustive_group_sequences_up_to_len"] = maxlen
    # (b) every shape variant x every payload, alone and between two neighbours
    for shape in SHAPES:
        for p in range(len(PAYLOADS)):
            d = {"shape": shape, "tag": next(tag), "p": p}
            seqs.append(([d], False))
            seqs.append(([desc("dict"), d, desc("typed-req")], p % 4 == 0))
    # (b') a message whose line is larger than 64 KiB, in each accepted shape, between two ordinary messages
    for shape in ("typed-req", "dict", "raw-compact", "raw-pretty"):
        d = {"shape": shape, "tag": next(tag), "p": 0, "large": True}
        seqs.append(([desc("dict"), d, desc("typed-res")], shape == "dict"))
    # (c) seeded long sequences over all variants
    names = list(SHAPES)
    for _ in range(ctx.budget(60, 600)):
        n = rng.choice([8, 20, 60, 150, 300])
        seqs.append(([{"shape": rng.choice(names), "tag": next(tag), "p": rng.randrange(len(PAYLOADS))} for _ in range(n)],
                     rng.random() < 0.3))
    return seqs


def judge_all(ctx, drv, rows):
    """Spec oracle on the implementation's bytes.  rows: (case, descs, close, writes, closed).  Driver calls batched."""
    todo = []
    for case, descs, close, writes, closed in rows:
        if not all(SHAPES[d["shape"]][1] for d in descs):
            continue
        built = [build(d) for d in descs]
        ser = [(d, exp) for d, (_o, exp, s) in zip(descs, built) if s]
        todo.append((case, close, writes, closed, ser, b"".join(writes)))
    res = drv.run([q for (_c, _cl, _w, _cd, ser, out) in todo for q in (call(2, sx(len(ser)), sx(out)), call(3, sx(out)))])
    failed = []
    for k, (case, close, writes, closed, ser, out) in enumerate(todo):
        ok, lines = res[2 * k], res[2 * k + 1]
        ctx.spec_total += 1
        if not ok:
            failed.append((case, writes, ser, out))
        else:
            got = []
            for ln in lib.as_opt(lines):
                try:
                    got.append(json.loads(bytes(ln).decode("utf-8")))
                except Exception as e:
                    got.append(("<undecodable>", type(e).__name__))
            want = [e for _d, e in ser]
            ctx.spec_total += 1
            if got != want:
                if sorted(map(repr, got)) == sorted(map(repr, want)):
                    klass = "order-changed"
                else:
                    i = next((i for i, (g, w) in enumerate(zip(got, want)) if g != w), 0)
                    klass = "content-differs:" + SHAPES[ser[i][0]["shape"]][0]
                ctx.spec_violation(klass, case, f"decoded {json.dumps(got, default=repr)[:300]} expected "
                                                f"{json.dumps(want, default=repr)[:300]}")
        ctx.spec_total += 1
        if bool(closed) != bool(close):
            ctx.spec_violation("stdin-not-closed-after-stream-end" if close else "stdin-closed-while-stream-open", case,
                               f"close requested={close} stdin closed={closed}")
    # which message(s) broke the framing?  (one write per send() call)
    per_write = drv.run([call(2, "1", sx(w)) for (_c, writes, ser, _o) in failed if len(writes) == len(ser) for w in writes])
    it = iter(per_write)
    for case, writes, ser, out in failed:
        klass = None
        if len(writes) == len(ser):
            oks = [next(it) for _ in writes]
            bad = [d["shape"] for (d, _e), o in zip(ser, oks) if not o]
            if bad and all(b in ("raw-pretty", "raw-pretty-crlf", "raw-trailing-newline", "raw-leading-newline",
                               "raw-compact-trailing-newline") for b in bad):
                klass = "raw-string-with-line-break-forwarded-verbatim"
            elif bad:
                klass = "line-break-inside-line:" + SHAPES[bad[0]][0]
        if klass is None:
            klass = "message-lost-or-extra" if len(writes) != len(ser) else "stream-not-ndjson"
        ctx.spec_violation(klass, case, f"{len(ser)} serialisable messages, {out.count(bytes([10]))} LF bytes, "
                                        f"{out.count(bytes([13]))} CR bytes, {len(writes)} writes")


async def _interleave_run(shape, size, batch_after):
    """A large outgoing message while the READER task answers a server batch with a rejection error written straight to the
    child's stdin (protocol version without batching).  The child's stdin yields on every write, as a real pipe may."""
    class YieldingStdin(type(FakeProcess().stdin)):
        async def send(self, data):
            await anyio.sleep(0)
            await super().send(data)
            await anyio.sleep(0)

    proc = FakeProcess()
    proc.stdin = YieldingStdin()
    big = {"jsonrpc": "2.0", "id": "big", "method": "x/y", "params": {"blob": "x" * size, "tail": "\u2028"}}
    with patched_open_process(proc):
        client = new_client()
        async with client:
            client.set_protocol_version("2025-06-18")
            _r, w = client.get_streams()
            await send_or_giveup(w, {"jsonrpc": "2.0", "id": "before", "method": "a"})
            if shape == "dict":
                await send_or_giveup(w, big)
            elif shape == "str":
                await send_or_giveup(w, json.dumps(big))
            else:
                from chuk_mcp.protocol.messages.json_rpc_message import JSONRPCRequest
                await send_or_giveup(w, JSONRPCRequest(**big))
            for _ in range(batch_after):
                await anyio.sleep(0)
            proc.stdout.feed(b'[{"jsonrpc":"2.0","method":"notifications/x"}]\n')
            await send_or_giveup(w, {"jsonrpc": "2.0", "id": "after", "method": "b"})
            await writer_idle(client, proc)
            for _ in range(50):
                await anyio.sleep(0)
            data = proc.stdin.data()
            proc.stdout.close()
    return data, big


async def _slow_child_run(stall, big):
    class StallingStdin(type(FakeProcess().stdin)):
        async def send(self, data):
            await super().send(data)       # the bytes are in the pipe / transport buffer ...
            await anyio.sleep(stall)       # ... and the flush takes this long: the child is not reading at the moment

    proc = FakeProcess()
    proc.stdin = StallingStdin()
    msgs = [{"jsonrpc": "2.0", "id": i, "method": "m", "params": {"blob": "x" * (big if i == 1 else 3)}} for i in (1, 2, 3)]
    with patched_open_process(proc):
        client = new_client()
        async with client:
            _r, w = client.get_streams()
            for m in msgs:
                await send_or_giveup(w, m)
            await anyio.sleep(stall * 8 + 5)
            data = proc.stdin.data()
            proc.stdout.close()
    return data, msgs


def check_slow_child(ctx, only=None):
    """A child that does not read its stdin for a while (it is busy): each write takes 0.5-20 s to flush.  Still exactly one
    line per message, in order (virtual clock)."""
    from vloop import vrun
    for stall, big in ([only] if only else [(0.5, 10), (7.0, 200_000), (20.0, 200_000), (7.0, 10)]):
        data, msgs = vrun(_slow_child_run, stall, big)
        case = {"each_write_takes_s": stall, "first_message_bytes": big}
        ctx.case(case, nontrivial=True)
        ctx.count("slow-child")
        ctx.spec_total += 1
        lines = data.split(b"\n")
        ids = []
        for ln in lines[:-1]:
            try:
                ids.append(json.loads(ln).get("id"))
            except Exception:                                  # noqa: BLE001
                ids.append("<not json>")
        if ids != [1, 2, 3] or lines[-1] != b"":
            ctx.spec_violation("slow-child:not-one-line-per-message", case, f"3 messages sent, ids of the lines the child got: {ids}")


def check_interleaving(ctx):
    for shape in ("dict", "str", "typed"):
        for size in (10, 70_000, 300_000):
            for batch_after in (0, 1, 2, 3, 5):
                case = {"interleaving": {"big-message-shape": shape, "bytes": size, "batch-arrives-after-yields": batch_after}}
                ctx.case(case, nontrivial=True)
                ctx.count("interleave:size=" + str(size))
                data, big = anyio.run(_interleave_run, shape, size, batch_after)
                ctx.spec_total += 1
                lines = data.split(b"\n")
                if lines[-1] != b"":
                    ctx.spec_violation("interleaved:stream-not-newline-terminated", case, f"tail {lines[-1][:60]!r}")
                    continue
                docs, bad = [], None
                for ln in lines[:-1]:
                    try:
                        docs.append(json.loads(ln.decode("utf-8")))
                    except Exception:
                        bad = ln
                        break
                if bad is not None:
                    ctx.spec_violation("interleaved:line-is-not-a-json-document", case,
                                       f"a line of {len(bad)} bytes starting {bad[:50]!r} ... is not JSON: another writer's bytes "
                                       f"ended up inside a message's line")
                    continue
                ids = [d.get("id") for d in docs if "method" in d]
                if ids != ["before", "big", "after"] or big not in docs:
                    ctx.spec_violation("interleaved:message-lost-or-reordered", case, f"request ids on the wire: {ids}")
                n_err = sum(1 for d in docs if "error" in d)
                if n_err != 1:
                    ctx.spec_violation("interleaved:rejection-error-count", case, f"{n_err} rejection errors written for one batch")


def explore(ctx, drv):
    check_interleaving(ctx)
    check_slow_child(ctx)
    policy = anyio.run(_probe_policy)
    ctx.extra["raw_string_policy_of_tree_under_test"] = "Verbatim (as before the fix)" if policy == 0 else "Recompact (as /repo HEAD)"
    ctx.extra["tree_under_test"] = lib.REPO
    seqs = gen_sequences(ctx)
    via = frozenset(i for i, (_d, close) in enumerate(seqs) if close and i % 3 == 1)     # every other message through send_json()
    impl = anyio.run(run_sequences, seqs, via)
    reqs = []
    for descs, close in seqs:
        evs = [sx_model_msg(*serialiser_results(build(d)[0])) for d in descs]
        if close:
            evs.append("()")
        reqs.append(call(0, str(policy), "(" + " ".join(evs) + ")"))
    mres = drv.run(reqs)
    rows = []
    for k, ((descs, close), (writes, closed, idle), (m_writes, m_closed)) in enumerate(zip(seqs, impl, mres)):
        case = {"messages": descs, "close": close, **({"every_other_message_via_send_json": True} if k in via else {})}
        if k in via:
            ctx.count("entry:send_json-mixed")
        ctx.case(case, nontrivial=len(descs) > 0)
        ctx.count("len:" + (str(len(descs)) if len(descs) <= 7 else "8-99" if len(descs) < 100 else "100+"))
        ctx.count("close:" + ("yes" if close else "no"))
        for d in descs:
            ctx.count("shape:" + d["shape"])
        if not idle and not close:
            # the writer task stopped taking messages off the write stream (it ended or is stuck): everything after
            # that point is lost - an observation about the implementation, not a harness failure
            bad = next((d["shape"] for d in descs if not build(d)[2]), None)
            ctx.spec_violation("writer-stopped-consuming" + (":after-" + SHAPES[bad][0] if bad else ""), case,
                               f"{len(writes)} writes for {len(descs)} messages; the writer no longer receives")
        mw = [bytes(w) for w in m_writes]
        if writes != mw or bool(closed) != bool(m_closed):
            ctx.mismatch(case, {"writes": [w.hex() for w in writes], "closed": bool(closed)},
                         {"writes": [w.hex() for w in mw], "closed": bool(m_closed)},
                         "bytes on the child's stdin: model != implementation")
        rows.append((case, descs, close, writes, closed))
    judge_all(ctx, drv, rows)
    check_fallback_backend(ctx, drv, seqs)
    check_stdout_eof(ctx, seqs)
    ctx.exhaustive = True


def check_fallback_backend(ctx, drv, seqs):
    """The same writer under the OTHER validation back end (MCP_FORCE_FALLBACK=1: the typed messages are then the home-grown
    classes and THEIR model_dump_json writes the line): the short sequences (every variant x every payload) in a subprocess,
    judged by the same spec oracle.  No model in between (the model is fed the Pydantic serialisers' results)."""
    import subprocess
    import tempfile
    # (sequences of serialisable messages only: what counts as unserialisable differs between the back ends by design - the
    # fallback's dumps stringifies unknown objects - and the dropped-alone clause is judged on the Pydantic run above)
    short = [(d, c) for d, c in seqs if 1 <= len(d) <= 3 and all(build(x)[2] for x in d)][:ctx.budget(600, 4000)]
    with tempfile.TemporaryDirectory(prefix="c06-fb-") as tmp:
        ip, op = os.path.join(tmp, "in.json"), os.path.join(tmp, "out.json")
        json.dump([[d, c] for d, c in short], open(ip, "w", encoding="utf-8"))
        env = dict(os.environ, MCP_FORCE_FALLBACK="1", PYTHONPATH=os.path.join(lib.REPO, "src"), PYTHONHASHSEED="0")
        p = subprocess.run([lib.PY, os.path.join(os.path.dirname(os.path.abspath(__file__)), "c06_fb_worker.py"), ip, op],
                           env=env, capture_output=True, text=True, timeout=900)
        if p.returncode != 0 or not os.path.exists(op):
            raise lib.HarnessError("C06 fallback worker failed: " + (p.stderr or "")[-600:])
        doc = json.load(open(op, encoding="utf-8"))
    if doc["backend"] != "fallback":
        raise lib.HarnessError("C06 fallback worker did not run under the fallback back end")
    rows = []
    for (descs, close), r in zip(short, doc["results"]):
        case = {"messages": descs, "close": close, "backend": "fallback"}
        ctx.case(case, nontrivial=True)
        ctx.count("backend:fallback")
        rows.append((case, descs, close, [bytes.fromhex(w) for w in r["writes"]], r["closed"]))
    judge_all(ctx, drv, rows)


def run(ctx):
    lib.standard_obligations(ctx, GEN, TARGETS)
    drv = lib.Driver("C06")
    ctx.oblige("build:driver(C06)", True)
    if ctx.broken_obligations:
        ctx.escalated = True
    explore(ctx, drv)
    if ctx.corr_mismatch and not ctx.escalated and not ctx.spec_fail:
        ctx.escalated = True
        explore(ctx, drv)
    if ctx.thorough:
        lib.coqchk(ctx, "C06")
    ctx.rule = ("real StdioClient._stdin_writer with a capturing process.stdin. (a) EVERY sequence of length 0..6 (7 thorough) "
                "over the groups typed / dict / pre-serialised string / unserialisable (so an unserialisable object at every "
                "position), concrete variant (5 typed classes, 6 string layouts incl. pretty-printed / CRLF / trailing newline, "
                "9 unserialisable objects) and payload (strings with \\n \\r U+2028 NUL quotes backslash astral, nested null, "
                "big ints, floats, keys with breaks) rotating; (b) every variant x every payload alone and between neighbours; "
                "(c) seeded sequences of 8..300 messages over all 27 variants; every 3rd-5th sequence ends by closing the write "
                "stream. Model gets the REAL serialisers' per-message results; spec oracle = extracted stream_ok/stream_lines on "
                "the captured bytes + json.loads equality with the value the message was built from. exhaustive:true refers to (a),(b)")
    return lib.finish(ctx, TRUSTED, ASSUME)


def replay(ctx, data):
    drv = lib.Driver("C06")
    case = data.get("case", {})
    if "messages" not in case:
        print("replay supports (messages, close) cases")
        return 0
    descs, close = case["messages"], bool(case.get("close"))
    if "each_write_takes_s" in case:
        check_slow_child(ctx, only=(case["each_write_takes_s"], case["first_message_bytes"]))
        for f in ctx.spec_fail:
            print("REPRODUCED", json.dumps(f)[:800])
        return 1 if ctx.spec_fail else 0
    if "child_closes_its_stdout_after" in case:
        check_stdout_eof(ctx, [(descs, False)])
        for f in ctx.spec_fail:
            print("REPRODUCED", json.dumps(f)[:800])
        return 1 if ctx.spec_fail else 0
    if case.get("backend") == "fallback":
        check_fallback_backend(ctx, drv, [(descs, close)])
        for f in ctx.spec_fail:
            print("REPRODUCED", json.dumps(f)[:800])
        return 1 if ctx.spec_fail else 0
    policy = anyio.run(_probe_policy)
    (writes, closed, _idle), = anyio.run(run_sequences, [(descs, close)],
                                          frozenset({0}) if case.get("every_other_message_via_send_json") else frozenset())
    print("bytes on stdin:", [w for w in writes])
    judge_all(ctx, drv, [(case, descs, close, writes, closed)])
    for f in ctx.spec_fail:
        print("REPRODUCED", json.dumps(f)[:800])
    return 1 if ctx.spec_fail else 0

#!/usr/bin/env python3
"""design_sync.py [Cxx ...] -- replace the as-built section '### Cxx ...' of DESIGN.md by notes/Cxx.md (all notes when no id is given)."""
import glob
import os
import re
import sys

root = os.path.dirname(os.path.dirname(os.path.abspath(__file__)))
p = os.path.join(root, "DESIGN.md")
s = open(p, encoding="utf-8").read()
ids = sys.argv[1:] or sorted(os.path.basename(f)[:-3] for f in glob.glob(os.path.join(root, "notes", "C*.md")))
for pid in ids:
    note = open(os.path.join(root, "notes", pid + ".md"), encoding="utf-8").read().rstrip() + "\n\n"
    m = re.search(r"^### %s \S.*?(?=^###? |^-{20,}$|\Z)" % pid, s, flags=re.S | re.M)
    if not m:
        print("no section for", pid)
        continue
    if s[m.start():m.end()] != note:
        s = s[:m.start()] + note + s[m.end():]
        print("updated", pid)
open(p, "w", encoding="utf-8").write(s)

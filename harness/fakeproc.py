"""A scripted stand-in for the child process behind anyio.open_process.

The stdio client only uses: process.stdout (async iterable of chunks),
process.stdin (.send(bytes) / .aclose()), .pid, .returncode, .terminate(),
.kill(), .wait().  The fake records what is written to stdin and lets the
harness feed stdout chunk by chunk, waiting until the reader has fully processed
everything fed so far (it asks for the next chunk)."""
from __future__ import annotations

import anyio


class FakeStdout:
    def __init__(self):
        self._chunks = []
        self._closed = False
        self._wake = anyio.Event()
        self.requests = 0          # number of times the reader asked for a chunk
        self.fed = 0
        self._asked = anyio.Event()

    def feed(self, chunk):
        self._chunks.append(chunk)
        self.fed += 1
        self._wake.set()

    def close(self):
        self._closed = True
        self._wake.set()

    def __aiter__(self):
        return self

    async def __anext__(self):
        self.requests += 1
        self._asked.set()
        while not self._chunks:
            if self._closed:
                raise StopAsyncIteration
            self._wake = anyio.Event()
            await self._wake.wait()
        return self._chunks.pop(0)

    async def drained(self):
        """Wait until the reader has consumed every fed chunk and is asking for more."""
        while self._chunks or self.requests <= self.fed:
            self._asked = anyio.Event()
            if not (self._chunks or self.requests <= self.fed):
                break
            await self._asked.wait()


class FakeStdin:
    def __init__(self):
        self.writes = []           # list of bytes objects, one per send()
        self.closed = False
        self.fail_next = 0

    async def send(self, data):
        if self.closed:
            raise anyio.ClosedResourceError()
        self.writes.append(bytes(data))

    async def aclose(self):
        self.closed = True

    def data(self) -> bytes:
        return b"".join(self.writes)


class FakeProcess:
    def __init__(self):
        self.stdout = FakeStdout()
        self.stdin = FakeStdin()
        self.stderr = None
        self.pid = 424242
        self.returncode = None
        self.terminated = 0
        self.killed = 0

    def terminate(self):
        self.terminated += 1
        self.returncode = -15
        self.stdout.close()

    def kill(self):
        self.killed += 1
        self.returncode = -9
        self.stdout.close()

    async def wait(self):
        return self.returncode

    async def aclose(self):
        pass


class patched_open_process:
    """Context manager: anyio.open_process returns the given fake process and
    records the (command, kwargs) it was called with."""

    def __init__(self, proc):
        self.proc = proc
        self.calls = []

    def __enter__(self):
        self._orig = anyio.open_process

        async def fake(command, **kw):
            self.calls.append((command, kw))
            return self.proc

        anyio.open_process = fake
        return self

    def __exit__(self, *a):
        anyio.open_process = self._orig
        return False

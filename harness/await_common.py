"""Shared by C01 / C07 / C14: run the REAL send_message under the virtual clock
on a scripted arrival history and compare with the Coq model (Drv/Await) and the
extracted spec checkers (Drv/AwaitSpec).

A scenario is a dict:
  D        deadline in ticks (timeout = D/100 s), t0 = 0
  me       request id: a str, or None (send_message generates a uuid)
  has_cb   supply a progress callback
  cb_raise set of callback invocation indices at which the callback raises
  cancel   tick at which the token is triggered (None = no token)
  params   params dict or None
  arrivals list of (tick, msg) with msg one of
           ("res", idspec, tok) ("err", idspec, code, with_data) ("req", idspec)
           ("notif",) ("nullerr",) ("nullres",) ("prog", matches, val) ("batch", idspec)
           idspec: ("me",) | ("str", s) | ("int", z)
"""
from __future__ import annotations

import asyncio
import copy
import uuid

import anyio

from lib import sx, sxo, call
from vloop import vrun, vsleep_until

TICK = 0.01


class _Uuid:
    def __init__(self):
        self.n = 0

    def __call__(self):
        self.n += 1
        return uuid.UUID(int=self.n)


def resolve_id(idspec, me_actual):
    if idspec[0] == "me":
        return me_actual
    return idspec[1]


def prog_params(val, token):
    p = {"progressToken": token}
    if val == 0:
        return p                       # no progress field at all -> callback gets 0
    p["progress"] = val
    if val == 5:
        p["total"] = 0                 # "0 of 0": a server that does not know the amount of work yet
        p["message"] = "starting"
    elif val % 3 == 1:
        p["total"] = val * 2
        p["message"] = f"m{val}"
    elif val % 3 == 0:
        p["total"] = None
    return p


def expected_cb_args(val):
    if val == 0:
        return (0, None, None)
    if val == 5:
        return (5, 0, "starting")
    if val % 3 == 1:
        return (val, val * 2, f"m{val}")
    return (val, None, None)


def materialise(params):
    """{"$odd": kind} stands for request params holding a legal Python value that is not JSON-native (the streams carry
    objects; nothing obliges the caller to use JSON types only): built here so that scenarios stay JSON-describable."""
    if isinstance(params, dict) and set(params) == {"$odd"}:
        import decimal
        import pathlib
        return {"path": {"name": "read", "arguments": {"file": pathlib.PurePosixPath("/tmp/x y")}},
                "decimal": {"amount": decimal.Decimal("1.10"), "n": 1},
                "set": {"tags": {"a"}, "k": [1]},
                "bytes": {"blob": b"\x00\xff", "_meta": {"trace": b"t"}},
                "nested": {"a": [{"p": pathlib.PurePosixPath("a/b")}, None]}}[params["$odd"]]
    return params


def build_message(msg, me_actual, token):
    from chuk_mcp.protocol.messages.json_rpc_message import parse_message
    k = msg[0]
    if k == "res":
        return parse_message({"jsonrpc": "2.0", "id": resolve_id(msg[1], me_actual), "result": {"tok": msg[2]}})
    if k == "err":
        e = {"code": msg[2], "message": f"e{msg[2]}"}
        if len(msg) > 3 and msg[3] is not None:
            e["data"] = msg[3]
        if len(msg) > 4 and msg[4] == "no-message":
            # an error object without the (required) message member: only an object built by hand can carry one -
            # the request must still end with the classified exception carrying the code
            from chuk_mcp.protocol.messages.json_rpc_message import JSONRPCMessage
            del e["message"]
            return JSONRPCMessage(jsonrpc="2.0", id=resolve_id(msg[1], me_actual), error=e)
        return parse_message({"jsonrpc": "2.0", "id": resolve_id(msg[1], me_actual), "error": e})
    if k == "req":
        return parse_message({"jsonrpc": "2.0", "id": resolve_id(msg[1], me_actual), "method": "sampling/createMessage",
                              "params": {"q": 1}})
    if k == "notif":
        return parse_message({"jsonrpc": "2.0", "method": "notifications/message", "params": {"level": "info"}})
    if k == "cancelnotif":
        # the PEER withdraws a request of ITS OWN that happens to carry the same id (ids are per direction): a notification,
        # which answers nobody's request
        return parse_message({"jsonrpc": "2.0", "method": "notifications/cancelled",
                              "params": {"requestId": resolve_id(msg[1], me_actual), "reason": "no longer needed"}})
    if k in ("nullerr", "nullres"):
        # a response that bears NO id: the null-id error a peer sends when it could not read a message (Parse error,
        # Invalid Request), or an id-less result; it answers nobody's request
        from chuk_mcp.protocol.messages.json_rpc_message import JSONRPCMessage
        if k == "nullerr":
            d = {"jsonrpc": "2.0", "id": None, "error": {"code": -32700, "message": "Parse error"}}
            try:
                return parse_message(d)
            except Exception:                                   # noqa: BLE001
                return JSONRPCMessage(**d)
        return JSONRPCMessage(jsonrpc="2.0", result={"tok": 424242})
    if k == "prog":
        tok = token if (msg[1] and token is not None) else "some-other-token"
        return parse_message({"jsonrpc": "2.0", "method": "notifications/progress", "params": prog_params(msg[2], tok)})
    if k == "batch":
        # a list object on the stream, containing a response that bears the id: the worst distractor
        return [parse_message({"jsonrpc": "2.0", "id": resolve_id(msg[1], me_actual), "result": {"tok": 999999}})]
    raise ValueError(k)


async def _scenario(sc):
    import importlib
    # the package re-exports a FUNCTION called send_message; fetch the module itself
    sm = importlib.import_module("chuk_mcp.protocol.messages.send_message")
    fake_uuid = _Uuid()
    orig_uuid4 = uuid.uuid4
    uuid.uuid4 = fake_uuid
    try:
        in_send, in_recv = anyio.create_memory_object_stream(100000)
        out_send, out_recv = anyio.create_memory_object_stream(100000)
        has_cb = bool(sc.get("has_cb"))
        # send_message draws the progress token first (if a callback is given), then the request id
        token = str(uuid.UUID(int=1)) if has_cb else None
        me = sc.get("me")
        me_actual = me if me else str(uuid.UUID(int=2 if has_cb else 1))
        cb_calls = []
        cb_raise = set(sc.get("cb_raise") or ())

        async def cb(progress, total, message):
            idx = len(cb_calls)
            cb_calls.append((progress, total, message))
            if idx in cb_raise:
                # what a failing callback raises is the application's business: a plain error, a lookup error, a timeout of
                # its own, or - a callback that forwards the update with a nested send_message - one of the LIBRARY's exceptions
                kind = sc.get("cb_exc") or "runtime"
                if kind == "lib-cancelled":
                    raise sm.CancelledError("Request nested-by-the-callback was cancelled")
                if kind == "lib-retryable":
                    raise sm.RetryableError("nested failure", -32000)
                if kind == "lib-nonretryable":
                    raise sm.NonRetryableError("nested failure", -32601)
                if kind == "timeout":
                    raise TimeoutError("nested request timed out")
                if kind == "keyerror":
                    raise KeyError("k")
                raise RuntimeError("callback failure injected by the harness")

        # the callback handed to the library: an `async def`, or another callable of the documented type
        # Callable[..., Awaitable[None]] that is NOT literally a coroutine function
        shape = sc.get("cb_shape") or "async-def"
        if shape == "lambda":
            cb_given = lambda p, t, m: cb(p, t, m)                    # noqa: E731
        elif shape == "callable-object":
            class _Cb:
                async def __call__(self, p, t, m):
                    await cb(p, t, m)
            cb_given = _Cb()
        elif shape == "decorated":
            import functools

            def plain(fn):
                @functools.wraps(fn)
                def wrapper(*a, **k):
                    return fn(*a, **k)
                return wrapper
            cb_given = plain(cb)
        elif shape == "partial":
            import functools

            async def cb4(_tag, p, t, m):
                await cb(p, t, m)
            cb_given = functools.partial(cb4, "call-1")
        else:
            cb_given = cb
        cancel = sc.get("cancel")
        tok = sm.CancellationToken() if (cancel is not None or sc.get("idle_token")) else None
        loop = asyncio.get_running_loop()
        t0 = loop.time()
        arrivals = sc["arrivals"]
        # messages with tick <= 0 are already queued when the call is made
        pre = [m for (t, m) in arrivals if t <= 0]
        post = [(t, m) for (t, m) in arrivals if t > 0]
        for m in pre:
            in_send.send_nowait(build_message(m, me_actual, token))
        if sc.get("closed_before_call"):
            # the peer answered and hung up before the caller got to read: what is buffered is still to be delivered
            if post:
                raise ValueError("closed_before_call needs every arrival to be queued beforehand")
            in_send.close()
        if cancel is not None and cancel < 0:
            tok.cancel()

        early_writes = []

        def written_token():
            """The progress token the REQUEST carries (what a server echoes), once the request has been written;
            before that - messages already queued when the call is made - the token the id supply will hand out."""
            while True:
                try:
                    early_writes.append(out_recv.receive_nowait())
                except anyio.WouldBlock:
                    break
            for w in early_writes:
                if getattr(w, "method", None) is not None and getattr(w, "id", None) is not None:
                    meta = (getattr(w, "params", None) or {}).get("_meta")
                    if isinstance(meta, dict) and "progressToken" in meta:
                        return meta["progressToken"]
                    return token
            return token

        async def feeder():
            for t, m in post:
                await vsleep_until(t0 + t * TICK)
                in_send.send_nowait(build_message(m, me_actual, written_token() if has_cb else token))

        async def canceller():
            await vsleep_until(t0 + cancel * TICK)
            tok.cancel()

        result = {}
        sib_obs = []

        async def sibling(i):
            """Another request sharing the SAME cancellation token (a caller cancelling a group of requests), on a
            connection of its own, with no traffic.  Each request owes its peer its own cancelled notification."""
            s_in_send, s_in_recv = anyio.create_memory_object_stream(1000)
            s_out_send, s_out_recv = anyio.create_memory_object_stream(1000)
            sid = f"sibling-{i}"
            out = "returned"
            try:
                await sm.send_message(s_in_recv, s_out_send, "tools/call", None, timeout=(sc["D"] + 200) * TICK,
                                      message_id=sid, cancellation_token=tok)
            except sm.CancelledError:
                out = "cancelled"
            except TimeoutError:
                out = "timeout"
            except Exception as e:        # noqa: BLE001
                out = "exc:" + type(e).__name__
            ws = []
            while True:
                try:
                    ws.append(s_out_recv.receive_nowait())
                except anyio.WouldBlock:
                    break
            names = [(w.params or {}).get("requestId") for w in ws if getattr(w, "method", None) == "notifications/cancelled"]
            sib_obs.append({"id": sid, "out": out, "cancelled_notifications": names,
                            "request_written": any(getattr(w, "id", None) == sid for w in ws)})

        async with anyio.create_task_group() as tg:
            for i in range(int(sc.get("siblings") or 0) if tok is not None else 0):
                tg.start_soon(sibling, i)
            if sc.get("siblings") and tok is not None:
                await anyio.sleep(0)          # the siblings are under way before this request starts
            if sc.get("feeder_first"):
                # "delivery first": every message is put on the stream by a loop CALLBACK (as a transport does) registered
                # before the request's poll timers exist, so that for a message due exactly on a poll boundary the delivery
                # callback and that poll's deadline callback run in the SAME event-loop pass, delivery first: the pending
                # receive() is completed, then the deadline is called on a wait that is already over
                for t, m in post:
                    loop.call_at(t0 + t * TICK,
                                 lambda m=m: in_send.send_nowait(build_message(m, me_actual, written_token() if has_cb else token)))
            else:
                tg.start_soon(feeder)
            if cancel is not None and cancel >= 0:
                tg.start_soon(canceller)
            try:
                r = await sm.send_message(in_recv, out_send, "tools/call", copy.deepcopy(materialise(sc.get("params"))),
                                          timeout=sc["D"] * TICK, message_id=me,
                                          cancellation_token=tok, progress_callback=cb_given if has_cb else None)
                if isinstance(r, dict) and set(r) == {"tok"}:
                    result["out"] = ("ret", r["tok"])
                else:
                    result["out"] = ("ret-other", repr(r)[:200])
            except sm.RetryableError as e:
                result["out"] = ("err", True, e.code)
            except sm.NonRetryableError as e:
                result["out"] = ("err", False, e.code)
            except TimeoutError:
                result["out"] = ("timeout",)
            except sm.CancelledError:
                result["out"] = ("cancelled",)
            except Exception as e:  # anything else is an unclassified failure
                result["out"] = ("exc", type(e).__name__, str(e)[:200])
            result["end"] = (loop.time() - t0) / TICK
            if sc.get("siblings") and tok is not None:
                # give the siblings the time to see the token (one poll) before the group is torn down
                with anyio.move_on_after((sc.get("cancel") or 0) * TICK + 2.0):
                    while len(sib_obs) < int(sc["siblings"]) and tok.is_cancelled:
                        await anyio.sleep(0.05)
            tg.cancel_scope.cancel()
        writes = list(early_writes)
        while True:
            try:
                writes.append(out_recv.receive_nowait())
            except anyio.WouldBlock:
                break
        result["writes"] = writes
        result["cb"] = cb_calls
        result["siblings"] = sib_obs
        result["me"] = me_actual
        result["token"] = token
        return result
    finally:
        uuid.uuid4 = orig_uuid4


class debug_logging:
    """The harness normally disables logging (no check looks at log text).  Code that only runs when the application has
    turned DEBUG logging on must not change what a request does either: inside this context the root logger is at DEBUG and
    every record goes to a handler that drops it."""

    def __enter__(self):
        import logging
        self._root = logging.getLogger()
        self._level = self._root.level
        self._disabled = logging.root.manager.disable
        self._h = logging.NullHandler()
        self._saved_handlers = list(self._root.handlers)
        for h in self._saved_handlers:          # whatever an import configured: nothing is to be printed
            self._root.removeHandler(h)
        self._root.addHandler(self._h)
        self._root.setLevel(logging.DEBUG)
        logging.disable(logging.NOTSET)
        return self

    def __exit__(self, *a):
        import logging
        logging.disable(self._disabled)
        self._root.setLevel(self._level)
        self._root.removeHandler(self._h)
        for h in self._saved_handlers:
            self._root.addHandler(h)
        return False


def run_scenario(sc):
    if sc.get("debug_log"):
        with debug_logging():
            return vrun(_scenario, sc)
    return vrun(_scenario, sc)


# --------------------------------------------------------------------------- #
# encoding for the drivers
# --------------------------------------------------------------------------- #
def enc_rid(x) -> str:
    if isinstance(x, bool):
        raise TypeError
    if isinstance(x, int):
        return f"(0 {x})"
    return "(1 " + sx(x) + ")"


def enc_msg(msg, me_actual) -> str:
    k = msg[0]
    if k == "res":
        return f"(0 {enc_rid(resolve_id(msg[1], me_actual))} {msg[2]})"
    if k == "err":
        return f"(1 {enc_rid(resolve_id(msg[1], me_actual))} {msg[2]})"
    if k == "req":
        return f"(2 {enc_rid(resolve_id(msg[1], me_actual))})"
    if k in ("notif", "nullerr", "nullres", "cancelnotif"):
        return "(3)"          # for the model: a message that bears no id and completes nothing
    if k == "prog":
        return f"(4 {1 if msg[1] else 0} {msg[2]})"
    if k == "batch":
        return "(5)"
    raise ValueError(k)


def enc_arrivals(sc, me_actual) -> str:
    return "(" + " ".join(f"({t} {enc_msg(m, me_actual)})" for t, m in sc["arrivals"]) + ")"


def model_request(sc, me_actual) -> str:
    return call(0, str(sc["D"]), enc_rid(me_actual), sx(bool(sc.get("has_cb"))),
                sxo(sc.get("cancel")), "0", enc_arrivals(sc, me_actual))


def observe(sc, res):
    """Abstract the implementation's result to the model's `result` record.
    Returns (obs dict, list of problems that make the observation inexpressible)."""
    problems = []
    out = res["out"]
    if out[0] == "ret":
        o = ("ret", out[1])
    elif out[0] == "err":
        o = ("err", bool(out[1]), out[2])
    elif out[0] == "timeout":
        o = ("timeout",)
    elif out[0] == "cancelled":
        o = ("cancelled",)
    else:
        o = None
        if out[0] == "ret-other":
            problems.append(f"returned-foreign-object instead of a response payload: {out[1]}")
        else:
            problems.append(f"unclassified-exception {out}")
    end = res["end"]
    end_t = int(round(end))
    if abs(end - end_t) > 1e-4:
        problems.append(f"completion time {end} is not on the 10 ms grid")
    me = res["me"]
    reqs = [w for w in res["writes"] if getattr(w, "method", None) is not None and getattr(w, "id", None) is not None]
    cancels = [w for w in res["writes"] if getattr(w, "method", None) == "notifications/cancelled"]
    others = [w for w in res["writes"] if w not in reqs and w not in cancels]
    written = len(reqs) == 1
    if len(reqs) > 1:
        problems.append(f"{len(reqs)} requests written")
    if others:
        problems.append(f"unexpected writes: {[getattr(w, 'method', None) for w in others]}")
    if reqs:
        r0 = reqs[0]
        if res["writes"][0] is not r0:
            problems.append("the request is not the first message written")
        if r0.id != me or type(r0.id) is not type(me):
            problems.append(f"request written with id {r0.id!r}, expected {me!r}")
        if r0.method != "tools/call":
            problems.append(f"request written with method {r0.method!r}")
        want = materialise(sc.get("params"))
        got = r0.params
        if res["token"] is not None:
            want = dict(want or {})
            meta = dict(want.get("_meta") or {})
            meta["progressToken"] = res["token"]
            want["_meta"] = meta
        def strict(v):        # value AND JSON type: 1 != 1.0, 2**64 != 1.8446744073709552e+19, True != 1
            import json as _json
            return _json.dumps(v, sort_keys=True, default=repr)
        if strict(got or None) != strict(want or None) and strict(got) != strict(want):
            problems.append(f"request params {got!r} != given {want!r}")
    for c in cancels:
        rid = (c.params or {}).get("requestId")
        if rid != me:
            problems.append(f"cancelled notification names {rid!r}, expected {me!r}")
    cb_vals = []
    for args in res["cb"]:
        v = args[0]
        cb_vals.append(v if isinstance(v, int) and not isinstance(v, bool) else -1)
        if isinstance(v, int) and expected_cb_args(v) != tuple(args):
            problems.append(f"callback called with {args!r}, notified values were {expected_cb_args(v)!r}")
    for so in res.get("siblings") or []:
        if so["out"] == "cancelled" and so["request_written"] and so["cancelled_notifications"] != [so["id"]]:
            problems.append(f"sibling-request-sharing-the-token was cancelled with notifications {so['cancelled_notifications']!r} "
                            f"(exactly one naming {so['id']!r} is owed)")
    obs = {"out": o, "end": end_t, "written": written, "notifs": len(cancels), "cb": cb_vals}
    return obs, problems


def enc_outcome(o) -> str:
    if o[0] == "ret":
        return f"(0 {o[1]})"
    if o[0] == "err":
        return f"(1 {1 if o[1] else 0} {o[2]})"
    if o[0] == "timeout":
        return "(2)"
    return "(3)"


def enc_result(obs) -> str:
    return (f"({enc_outcome(obs['out'])} {obs['end']} {1 if obs['written'] else 0} {obs['notifs']} "
            f"({' '.join(str(v) for v in obs['cb'])}))")


def dec_result(r):
    o = r[0]
    if o[0] == 0:
        out = ("ret", o[1])
    elif o[0] == 1:
        out = ("err", bool(o[1]), o[2])
    elif o[0] == 2:
        out = ("timeout",)
    else:
        out = ("cancelled",)
    return {"out": out, "end": r[1], "written": bool(r[2]), "notifs": r[3], "cb": list(r[4])}


def spec_c01_request(sc, me_actual, obs) -> str:
    return call(0, "0", str(sc["D"]), enc_rid(me_actual), enc_arrivals(sc, me_actual), enc_result(obs))


def spec_c14_request(sc, me_actual, obs) -> str:
    return call(1, "0", str(sc["D"]), enc_rid(me_actual), sx(bool(sc.get("has_cb"))), sxo(sc.get("cancel")),
                enc_arrivals(sc, me_actual), enc_result(obs))


def check_scenarios(ctx, scenarios, model, spec, which):
    """Run scenarios on the implementation; membership in the model's result
    set; spec checkers `which` subset of {"c01","c14"} on the implementation's
    observation.  Returns list of (sc, obs) for further property-specific checks."""
    runs = []
    for sc in scenarios:
        res = run_scenario(sc)
        obs, problems = observe(sc, res)
        runs.append((sc, res, obs, problems))
    if model:
        mres = model.run([model_request(sc, res["me"]) for sc, res, _o, _p in runs])
    else:
        mres = [None] * len(runs)
    spec_reqs = []
    for (sc, res, obs, problems), mr in zip(runs, mres):
        case = scenario_case(sc)
        ctx.case(case, nontrivial=len(sc["arrivals"]) > 0 or sc.get("cancel") is not None)
        for p in problems:
            ctx.spec_violation("observation:" + p.split(" ")[0], case, p)
        if obs["out"] is None:
            continue
        if mr is not None:
            alts = [dec_result(r) for r in mr]
            if obs not in alts:
                ctx.mismatch(case, obs, alts[:6], "send_message: implementation result not among the model's possible results")
        if "c01" in which and sc.get("cancel") is None:
            spec_reqs.append(("c01", sc, obs, spec_c01_request(sc, res["me"], obs)))
        if "c14" in which:
            spec_reqs.append(("c14", sc, obs, spec_c14_request(sc, res["me"], obs)))
    sres = spec.run([q for _w, _s, _o, q in spec_reqs])
    for (w, sc, obs, _q), ok in zip(spec_reqs, sres):
        ctx.spec_total += 1
        if not ok:
            ctx.spec_violation(classify_failure(w, sc, obs), scenario_case(sc), f"{w}_ok = false on observation {obs}")
    return [(sc, obs) for sc, _r, obs, _p in runs]


def scenario_case(sc):
    return {"D": sc["D"], "me": sc.get("me"), "has_cb": bool(sc.get("has_cb")), "cancel": sc.get("cancel"),
            "cb_raise": sorted(sc.get("cb_raise") or ()), "params": sc.get("params"),
            **({"siblings": sc["siblings"]} if sc.get("siblings") else {}),
            **({"feeder_first": True} if sc.get("feeder_first") else {}),
            **({"debug_log": True} if sc.get("debug_log") else {}),
            **({"closed_before_call": True} if sc.get("closed_before_call") else {}),
            **({"idle_token": True} if sc.get("idle_token") else {}),
            **({"cb_shape": sc["cb_shape"]} if sc.get("cb_shape") else {}),
            **({"cb_exc": sc["cb_exc"]} if sc.get("cb_exc") else {}),
            "arrivals": [[t, list(m)] for t, m in sc["arrivals"]]}


def case_to_scenario(case):
    sc = dict(case)
    sc["arrivals"] = [(t, tuple(tuple(x) if isinstance(x, list) else x for x in m)) for t, m in case["arrivals"]]
    sc["cb_raise"] = set(case.get("cb_raise") or ())
    return sc


def classify_failure(which, sc, obs):
    """A specific class name for a failing observation."""
    out = obs["out"]
    kinds = [m[0] for _t, m in sc["arrivals"]]
    if which == "c01":
        if out[0] == "ret":
            # which arrival supplied the token?
            for _t, m in sc["arrivals"]:
                if m[0] == "res" and m[2] == out[1]:
                    return "returned-" + ("other-id" if m[1][0] != "me" else "not-first-matching") + "-response"
            if out[1] == 999999:
                return "returned-batch-member"
            return "returned-foreign-payload"
        if out[0] == "timeout":
            return "timed-out-despite-matching-response" if obs["end"] >= sc["D"] else "timeout-before-deadline"
        if out[0] == "err":
            return "raised-foreign-or-late-error"
        return "c01-" + out[0]
    if obs["end"] > sc["D"]:
        return "ended-after-deadline"
    if sc.get("cancel") is not None and out[0] != "cancelled" and obs["end"] > sc["cancel"] + 50:
        return "cancellation-latency-exceeds-poll-interval"
    if out[0] == "cancelled" and obs["notifs"] != 1:
        return "cancelled-notification-count-" + str(obs["notifs"])
    if out[0] != "cancelled" and obs["notifs"] != 0:
        return "spurious-cancelled-notification"
    if "prog" in kinds:
        return "progress-callback-log-wrong"
    return "c14-" + out[0]


# --------------------------------------------------------------------------- #
# Typed request helpers (send_* functions): they all funnel through send_message
# --------------------------------------------------------------------------- #
HELPER_ARGS = {
    "ref": {"type": "ref/prompt", "name": "p"}, "argument": {"name": "a", "value": "v"}, "level": "info",
    "name": "n", "arguments": {}, "uri": "file:///x",
    "messages": [{"role": "user", "content": {"type": "text", "text": "hi"}}], "max_tokens": 10,
}
# optional arguments, for the runs in which EVERY parameter of a helper is given (the follow-up page of a listing, a
# prompt with arguments, a sampling request with all its preferences)
HELPER_OPT_ARGS = {
    "cursor": "page-2", "arguments": {"a": 1}, "model_preferences": {"hints": [{"name": "m"}]}, "system_prompt": "s",
    "include_context": "none", "temperature": 0.5, "stop_sequences": ["x"], "metadata": {"k": "v"},
}
HELPER_RESULTS = {
    "send_completion_complete": {"completion": {"values": []}}, "send_logging_set_level": {}, "send_ping": {},
    "send_prompts_get": {"messages": []}, "send_prompts_list": {"prompts": []}, "send_resources_list": {"resources": []},
    "send_resources_read": {"contents": []}, "send_resources_subscribe": {}, "send_resources_unsubscribe": {},
    "send_resources_templates_list": {"resourceTemplates": []}, "send_roots_list": {"roots": []},
    "send_sampling_create_message": {"role": "assistant", "content": {"type": "text", "text": "x"}, "model": "m"},
    "send_tools_call": {"content": []}, "send_tools_list": {"tools": []},
}
BOOL_WRAPPERS = {"send_ping", "send_resources_subscribe", "send_resources_unsubscribe"}


def discover_helpers():
    """Every coroutine function send_* under chuk_mcp.protocol.messages taking (read_stream, write_stream),
    except send_message itself and the initialize helpers (C03 covers those)."""
    import importlib
    import inspect
    import pkgutil
    import chuk_mcp.protocol.messages as M
    found = {}
    for mi in pkgutil.walk_packages(M.__path__, M.__name__ + "."):
        mod = importlib.import_module(mi.name)
        for n, f in vars(mod).items():
            if n.startswith("send_") and inspect.iscoroutinefunction(f) and f.__module__ == mod.__name__:
                sig = inspect.signature(f)
                if "read_stream" in sig.parameters and n != "send_message" and "initialize" not in n:
                    found[n] = f
    return found


async def _helper_run(fn, name, script, timeout_ticks, full=False):
    """script: list of ("other-res",) ("same-req",) ("notif",) ("batch",) ("err", code, data) ("res",) ("silence",)"""
    import importlib
    import inspect
    from chuk_mcp.protocol.messages.json_rpc_message import parse_message
    sm = importlib.import_module("chuk_mcp.protocol.messages.send_message")
    in_send, in_recv = anyio.create_memory_object_stream(1000)
    out_send, out_recv = anyio.create_memory_object_stream(1000)
    sig = inspect.signature(fn)
    kwargs = {}
    for p in sig.parameters.values():
        if p.name in ("read_stream", "write_stream"):
            continue
        if p.default is inspect._empty:
            if p.name not in HELPER_ARGS:
                return {"out": ("skip", f"no argument recipe for {p.name}")}
            kwargs[p.name] = HELPER_ARGS[p.name]
        elif full and p.name in HELPER_OPT_ARGS:
            kwargs[p.name] = HELPER_OPT_ARGS[p.name]
    if "timeout" in sig.parameters:
        kwargs["timeout"] = timeout_ticks * TICK
    seen = {}

    async def peer():
        req = await out_recv.receive()
        seen["id"] = req.id
        seen["method"] = req.method
        for step in script:
            k = step[0]
            if k == "other-res":
                m = {"jsonrpc": "2.0", "id": "zz-other", "result": {"foreign": True}}
            elif k == "same-req":
                m = {"jsonrpc": "2.0", "id": req.id, "method": "sampling/createMessage", "params": {}}
            elif k == "notif":
                m = {"jsonrpc": "2.0", "method": "notifications/message", "params": {}}
            elif k == "batch":
                in_send.send_nowait([parse_message({"jsonrpc": "2.0", "id": req.id, "result": {"foreign": True}})])
                continue
            elif k == "err":
                e = {"code": step[1], "message": f"e{step[1]}"}
                if len(step) > 2 and step[2] is not None:
                    e["data"] = step[2]
                m = {"jsonrpc": "2.0", "id": req.id, "error": e}
            elif k == "res":
                m = {"jsonrpc": "2.0", "id": req.id, "result": HELPER_RESULTS.get(name, {})}
            else:
                continue
            in_send.send_nowait(parse_message(m))

    out = {}
    async with anyio.create_task_group() as tg:
        tg.start_soon(peer)
        try:
            r = await fn(in_recv, out_send, **kwargs)
            out["out"] = ("ret", r if isinstance(r, bool) else None,
                          bool(isinstance(r, dict) and r.get("foreign")) or bool(getattr(r, "foreign", False)))
        except sm.RetryableError as e:
            out["out"] = ("err", True, e.code)
        except sm.NonRetryableError as e:
            out["out"] = ("err", False, e.code)
        except TimeoutError:
            out["out"] = ("timeout",)
        except Exception as e:
            out["out"] = ("exc", type(e).__name__, str(e)[:160])
        tg.cancel_scope.cancel()
    out.update(seen)
    return out


def helper_has_options(fn):
    import inspect
    return any(p.name in HELPER_OPT_ARGS and p.default is not inspect._empty for p in inspect.signature(fn).parameters.values())


def run_helper(fn, name, script, timeout_ticks=300, full=False):
    orig = uuid.uuid4
    uuid.uuid4 = _Uuid()
    try:
        return vrun(_helper_run, fn, name, script, timeout_ticks, full)
    finally:
        uuid.uuid4 = orig

#!/usr/bin/env python3
"""Markdown table of the behaviour-preserving changes (harmless/*/meta.json); --inject rewrites the block between the
HARMLESS-TABLE markers of DESIGN.md."""
import glob
import json
import os
import sys

rows = []
n_checks = n_alarm_runs = 0
for d in sorted(glob.glob("/verif/harmless/*/meta.json")):
    m = json.load(open(d, encoding="utf-8"))
    hid = "H-" + os.path.basename(os.path.dirname(d))
    summ = (m.get("summary") or "").replace("|", "/").replace("\n", " ")
    n_checks += len(m.get("checks", {}))
    n_alarm_runs += len(m.get("alarms", []))
    if m.get("alarms"):
        what = []
        for c in m["alarms"]:
            ls = m["checks"][c]["lines"]
            br = [x for x in ls if "BROKEN" in x]
            what.append(c + ": " + (br[0].split("BROKEN obligation ")[1][:140] if br else (ls[0][:140] if ls else "exit 1")))
        res = "**alarm** — " + "; ".join(what)
    else:
        res = f"silent ({len(m.get('checks', {}))} checks)"
    fp = m.get("final_pass") or {}
    fin = ("silent" if not fp.get("alarms") else "**alarm** " + ",".join(fp["alarms"])) + f" ({len(fp.get('checks', {}))} checks)" if fp else "-"
    rows.append((hid, summ[:300], res.replace("|", "/"), fin, (m.get("note") or "").replace("|", "/")[:400]))
lines = ["| change | what it does | all 20 checks on the changed tree (first run) | final pass (final machinery, /repo HEAD) | remark |",
         "|---|---|---|---|---|"]
lines += ["| " + " | ".join(r) + " |" for r in rows]
lines.append("")
lines.append(f"{len(rows)} changes, {n_checks} check runs, {n_alarm_runs} of them raised an alarm at the first run.")
print("\n".join(lines))
if "--inject" in sys.argv:
    p = "/verif/DESIGN.md"
    s = open(p, encoding="utf-8").read()
    a, b = "<!-- HARMLESS-TABLE-BEGIN -->", "<!-- HARMLESS-TABLE-END -->"
    i, j = s.index(a) + len(a), s.index(b)
    open(p, "w", encoding="utf-8").write(s[:i] + "\n" + "\n".join(lines) + "\n" + s[j:])

"""Reflection over the imported chuk_mcp package (run as a subprocess under
/venv/bin/python with PYTHONPATH=$VERIF_REPO/src, Pydantic backend).

Prints one JSON document describing every McpPydanticBase subclass reachable by
walking the package: fields (python name, wire alias, annotation in the grammar of
Base/ValidSchema.v, declared default), hooks (method name + pinned AST hash) and,
for classes that fall outside the grammar, the reason.  Fail-closed: anything
that cannot be classified is reported as an error (exit 3), not skipped.

Also lists (for C10) the call sites in the package that dump a model without
by_alias and the library-side serialiser functions.
"""
from __future__ import annotations

import ast
import hashlib
import importlib
import inspect
import json
import pkgutil
import sys
import textwrap
import typing
from typing import Any, Union, Literal, get_args, get_origin

import logging
logging.disable(logging.CRITICAL)


class Unmodelled(Exception):
    pass


class Fatal(Exception):
    pass


def qual(cls) -> str:
    return f"{cls.__module__}.{cls.__qualname__}"


def ast_hash(fn) -> str:
    fn = getattr(fn, "__func__", fn)
    src = textwrap.dedent(inspect.getsource(fn))
    tree = ast.parse(src).body[0]
    body = list(tree.body)
    if body and isinstance(body[0], ast.Expr) and isinstance(getattr(body[0], "value", None), ast.Constant) \
            and isinstance(body[0].value.value, str):
        body = body[1:]
    txt = ast.dump(ast.Module(body=body, type_ignores=[]), annotate_fields=False, include_attributes=False)
    return hashlib.sha256(txt.encode()).hexdigest()[:16]


def conv_type(t, base):
    if t is Any:
        return ["any"]
    if t is str:
        return ["str"]
    if t is bool:
        return ["bool"]
    if t is int:
        return ["int"]
    if t is float:
        return ["float"]
    if t is dict:
        return ["dict", ["any"]]
    if t is list:
        return ["list", ["any"]]
    origin = get_origin(t)
    args = get_args(t)
    if origin is Union:
        non_none = [a for a in args if a is not type(None)]
        has_none = len(non_none) != len(args)
        inner = conv_type(non_none[0], base) if len(non_none) == 1 else ["union", [conv_type(a, base) for a in non_none]]
        return ["opt", inner] if has_none else inner
    if origin is Literal:
        for a in args:
            if not isinstance(a, (str, int, bool)):
                raise Unmodelled(f"Literal member {a!r}")
        return ["lit", list(args)]
    if origin in (list, typing.List):
        return ["list", conv_type(args[0], base) if args else ["any"]]
    if origin in (dict, typing.Dict):
        if args and args[0] is not str:
            raise Unmodelled(f"dict key type {args[0]!r}")
        return ["dict", conv_type(args[1], base) if len(args) > 1 else ["any"]]
    if inspect.isclass(t) and issubclass(t, base):
        return ["model", qual(t)]
    raise Unmodelled(f"annotation {t!r}")


def apply_constraints(n, ty, metadata):
    """Field(ge=a, le=b) on an (optional) float with integral bounds -> ["frange", a, b].  These constraints are
    enforced by Pydantic only (the fallback Field ignores them)."""
    lo = hi = None
    for m in metadata:
        k = type(m).__name__
        if k == "Ge" and float(m.ge).is_integer():
            lo = int(m.ge)
        elif k == "Le" and float(m.le).is_integer():
            hi = int(m.le)
        else:
            raise Unmodelled(f"constraint on {n}: {m!r}")
    if lo is None or hi is None:
        raise Unmodelled(f"one-sided constraint on {n}")
    if ty == ["float"]:
        return ["frange", lo, hi]
    if ty == ["opt", ["float"]]:
        return ["opt", ["frange", lo, hi]]
    raise Unmodelled(f"constraint on non-float {n}")


def conv_default(v, base):
    if v is None or isinstance(v, (bool, int, str)):
        return ["J", v]
    if isinstance(v, float):
        raise Unmodelled("float default")
    if isinstance(v, list):
        return ["A", [conv_default(x, base) for x in v]]
    if isinstance(v, dict):
        for k in v:
            if not isinstance(k, str):
                raise Unmodelled("non-str key in default")
        return ["M", [[k, conv_default(x, base)] for k, x in v.items()]]
    if isinstance(v, base):
        cls = type(v)
        items = [[n, conv_default(getattr(v, n), base)] for n in cls.model_fields]
        for k, x in (v.model_extra or {}).items():
            items.append([k, conv_default(x, base)])
        return ["O", qual(cls), items]
    raise Unmodelled(f"default {v!r}")


# Methods that take part in validation / serialisation.  A class defining one of
# them is modelled only if (class, method) is in HOOKS below with the pinned hash.
SENSITIVE = ("__post_init__", "model_post_init", "model_validate", "model_dump", "model_dump_json", "__init__",
             "__setattr__", "__getattr__", "__getattribute__", "model_construct", "dict", "json", "model_dump_mcp",
             "_process_aliases", "_build_field_values", "_validate_required_fields", "_validate_types",
             "_call_post_init_hooks", "_serialize_value", "__init_subclass__")


def describe(cls, base):
    out = {"name": qual(cls), "short": cls.__name__, "module": cls.__module__}
    methods = {}
    for m in SENSITIVE:
        if m in cls.__dict__:
            try:
                methods[m] = ast_hash(cls.__dict__[m])
            except (OSError, TypeError, SyntaxError) as e:
                raise Fatal(f"{qual(cls)}.{m}: source not available ({e})")
    out["methods"] = methods
    try:
        decs = cls.__pydantic_decorators__
        used = [k for k in ("validators", "field_validators", "root_validators", "model_validators",
                            "field_serializers", "model_serializers", "computed_fields") if getattr(decs, k)]
        own = set(cls.__dict__.get("__annotations__", {}))
        # ClassVar annotations are not fields
        inherits = bool(set(cls.model_fields) - own)
        fields = []
        try:
            hints = typing.get_type_hints(cls)
        except Exception as e:
            raise Unmodelled(f"type hints do not resolve: {e}")
        for n, f in cls.model_fields.items():
            if f.validation_alias is not None and f.validation_alias != f.alias:
                raise Unmodelled(f"validation_alias on {n}")
            if f.serialization_alias is not None and f.serialization_alias != f.alias:
                raise Unmodelled(f"serialization_alias on {n}")
            if f.exclude:
                raise Unmodelled(f"exclude on {n}")
            ann = f.annotation
            if isinstance(ann, (str, typing.ForwardRef)) or "ForwardRef" in repr(ann):
                ann = hints.get(n, ann)
            ty = conv_type(ann, base)
            if f.metadata:
                ty = apply_constraints(n, ty, f.metadata)
            if f.is_required():
                default = None
                if ty[0] == "opt":
                    raise Unmodelled(f"{n}: Optional without default (required under Pydantic, optional under the fallback)")
            else:
                dv = f.default_factory() if f.default_factory is not None else f.default
                default = conv_default(dv, base)
                if dv is None and ty[0] not in ("opt", "any"):
                    raise Unmodelled(f"{n}: default None for a non-Optional annotation")
            fields.append({"py": n, "wire": f.alias or n, "ty": ty, "default": default})
        out["fields"] = fields
        cfg = dict(cls.model_config)
        if cfg.get("extra") != "allow" or not cfg.get("populate_by_name"):
            raise Unmodelled(f"model_config {cfg!r}")
        for k in cfg:
            if k not in ("extra", "validate_assignment", "populate_by_name", "validate_by_alias", "validate_by_name",
                         "use_enum_values", "arbitrary_types_allowed"):
                raise Unmodelled(f"model_config key {k}")
        if used:
            raise Unmodelled("pydantic decorators: " + ",".join(used))
        if inherits:
            # kept WITH its fields: the harness still generates instances and compares the two back ends on them
            raise Unmodelled("inherits fields (the fallback only type-checks a class's own annotations)")
    except Unmodelled as e:
        out["unmodelled"] = str(e)
    return out


def all_subclasses(c):
    seen, stack = [], [c]
    while stack:
        x = stack.pop()
        for s in x.__subclasses__():
            if s not in seen:
                seen.append(s)
                stack.append(s)
    return seen


def find_dump_sites(pkg_path):
    """Every `.model_dump(` / `.dict(` call in the package that does not pass by_alias=True (C10)."""
    import os
    sites = []
    for root, _d, files in os.walk(pkg_path):
        for f in sorted(files):
            if not f.endswith(".py"):
                continue
            p = os.path.join(root, f)
            try:
                tree = ast.parse(open(p, encoding="utf-8").read())
            except SyntaxError as e:
                raise Fatal(f"{p}: {e}")
            owner = {}
            def mark(n, prefix):
                for ch in ast.iter_child_nodes(n):
                    name = prefix
                    if isinstance(ch, (ast.FunctionDef, ast.AsyncFunctionDef, ast.ClassDef)):
                        name = (prefix + "." if prefix else "") + ch.name
                    owner[id(ch)] = name
                    mark(ch, name)
            mark(tree, "")
            for node in ast.walk(tree):
                if isinstance(node, ast.Call) and isinstance(node.func, ast.Attribute) \
                        and node.func.attr in ("model_dump", "model_dump_json", "model_dump_mcp", "dict", "json"):
                    if node.func.attr in ("dict", "json") and node.args:
                        continue
                    by_alias = None
                    star = False
                    for kw in node.keywords:
                        if kw.arg == "by_alias":
                            by_alias = ast.unparse(kw.value)
                        if kw.arg is None:
                            star = True
                    recv = ast.unparse(node.func.value)
                    if node.func.attr in ("dict", "json") and not recv.replace("_", "").replace(".", "").isidentifier():
                        continue
                    sites.append({"file": os.path.relpath(p, pkg_path), "line": node.lineno, "call": node.func.attr,
                                  "function": owner.get(id(node), ""),
                                  "receiver": recv, "by_alias": by_alias, "kwargs_star": star})
    return sites


def main():
    import chuk_mcp
    from chuk_mcp.protocol.mcp_pydantic_base import McpPydanticBase, PYDANTIC_AVAILABLE
    if not PYDANTIC_AVAILABLE:
        raise Fatal("reflection must run under the Pydantic backend")
    import_errors = []
    for m in pkgutil.walk_packages(chuk_mcp.__path__, "chuk_mcp."):
        if m.name.endswith("__main__"):
            continue
        try:
            importlib.import_module(m.name)
        except Exception as e:  # optional dependencies of host glue may be missing
            import_errors.append([m.name, type(e).__name__])
    classes = sorted(all_subclasses(McpPydanticBase), key=qual)
    names = [qual(c) for c in classes]
    if len(set(names)) != len(names):
        raise Fatal("duplicate qualified class names")
    doc = {"classes": [describe(c, McpPydanticBase) for c in classes], "import_errors": import_errors,
           "dump_sites": find_dump_sites(chuk_mcp.__path__[0])}
    json.dump(doc, sys.stdout)


if __name__ == "__main__":
    try:
        main()
    except Fatal as e:
        print(f"FATAL: {e}", file=sys.stderr)
        sys.exit(3)
